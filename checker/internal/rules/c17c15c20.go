package rules

import (
	"fmt"
	"go/token"
	"go/types"
	"strings"
	"unicode/utf8"

	"golang.org/x/tools/go/ssa"

	"verif/checker/internal/absint"
	"verif/checker/internal/core"
	"verif/checker/internal/load"
	"verif/checker/internal/sx"
)

// ---------------------------------------------------------------------------
// C17

func isGlobalLoad(v ssa.Value, name string) bool {
	ld, ok := v.(*ssa.UnOp)
	if !ok || ld.Op != token.MUL {
		return false
	}
	g, ok := ld.X.(*ssa.Global)
	return ok && g.Name() == name
}

var rMigration = &Rule{
	Name: "R-MIGRATION",
	Doc: "registry discipline of type migrations: (CHECK-INSERT) every insertion of the new key into backwardRegistry is dominated by a lookup of that same key whose found-branch panics (registering a target twice is rejected); " +
		"(LOOKUP) in getTypeDetails every return of a family name for a non-opaque error is dominated by the lookup in backwardRegistry - no cached or shortcut path can serve a name computed before a migration was registered; " +
		"(ORDER) in initialisation code, GetTypeKey of a type that is the target of a migration is evaluated after that migration is registered; (NOCHAIN) among the module's own registrations no previous key equals another registration's new key; (CLOSE-BACK / CLOSE-FWD) RegisterTypeMigration keeps the registry transitively closed in both directions - the previous key is resolved through the registry before it is stored, and entries pointing at the new key are re-targeted - so chained renames give the same registry in either registration order",
	Run: runMigration,
}

func runMigration(c *core.Ctx) {
	p := c.P
	rtm := p.Func("errbase", "RegisterTypeMigration")
	gtd := p.Func("errbase", "getTypeDetails")
	if rtm == nil || gtd == nil {
		c.InternalErr("errbase.RegisterTypeMigration/getTypeDetails", "anchor functions not found")
		return
	}
	// CHECK-INSERT
	var newKey ssa.Value
	nIns := 0
	// (the insertion and the closure loops may sit in an unexported helper that receives the two keys)
	mreg := regionOf(rtm)
	mreg.each(func(in ssa.Instruction) {
		mu, ok := in.(*ssa.MapUpdate)
		if !ok || !isGlobalLoad(mu.Map, "backwardRegistry") {
			return
		}
		// only the insertion of a fresh key (not the re-pointing loop, whose key is a range variable)
		if _, isExtract := mu.Key.(*ssa.Extract); isExtract {
			return
		}
		nIns++
		newKey = mu.Key
		// the key registered is the PRESENT raw name of the new type: TypeKey(getFullTypeName(newType)). GetTypeKey
		// would apply the registry itself, so a type that already has a migration resolves to its old name, the
		// duplicate check never fires and a second registration silently re-targets the type
		rawKey := false
		kv := mreg.resolve(mu.Key)
		for i := 0; i < 3; i++ {
			switch x := kv.(type) {
			case *ssa.Convert:
				kv = x.X
				continue
			case *ssa.ChangeType:
				kv = x.X
				continue
			}
			break
		}
		if call, isCall := kv.(*ssa.Call); isCall && sx.Callee(call) != nil && sx.Callee(call).Name() == "getFullTypeName" && len(call.Call.Args) == 1 {
			if pp, isP := call.Call.Args[0].(*ssa.Parameter); isP && pp.Parent() == rtm {
				rawKey = true
			}
		}
		c.Check(rawKey, "errbase.RegisterTypeMigration: key of the new type", mu.Pos(), "TypeKey(getFullTypeName(newType)): the present raw name",
			"the key under which the new type is registered is not its present raw type name (e.g. GetTypeKey, which already applies migrations): for a type that already has a migration the duplicate check never fires and the type is silently re-targeted")
		lits := mreg.lits(mu.Block())
		ok2 := false
		for _, l := range lits {
			ex, isEx := l.V.(*ssa.Extract)
			if !isEx || ex.Index != 1 || !l.Neg {
				continue
			}
			lk, isLk := ex.Tuple.(*ssa.Lookup)
			if !isLk || !isGlobalLoad(lk.X, "backwardRegistry") || (lk.Index != mu.Key && identity(mreg.resolve(lk.Index)) != identity(mreg.resolve(mu.Key))) {
				continue
			}
			// the found branch must panic
			for _, r := range *ex.Referrers() {
				if ifi, isIf := r.(*ssa.If); isIf {
					tb := ifi.Block().Succs[0]
					if _, isPanic := tb.Instrs[len(tb.Instrs)-1].(*ssa.Panic); isPanic {
						ok2 = true
					}
				}
			}
		}
		c.Check(ok2, "errbase.RegisterTypeMigration: backwardRegistry[newKey] = prevKey", mu.Pos(), "dominated by a lookup of the same key whose found-branch panics",
			"a migration target can be registered twice: the insertion is not guarded by a panicking lookup of the same key")
	})
	c.Min("insertions of a new migration key", nIns, 1)
	_ = newKey
	// CLOSE-BACK / CLOSE-FWD: the registry is kept transitively closed in both directions, whatever the
	// order of registration
	mreg.each(func(in ssa.Instruction) {
		mu, ok := in.(*ssa.MapUpdate)
		if !ok || !isGlobalLoad(mu.Map, "backwardRegistry") {
			return
		}
		if _, isExtract := mu.Key.(*ssa.Extract); isExtract {
			return
		}
		resolved := false
		if ph, isPhi := mu.Value.(*ssa.Phi); isPhi {
			for _, e := range ph.Edges {
				ex, isEx := e.(*ssa.Extract)
				if !isEx || ex.Index != 0 {
					continue
				}
				lk, isLk := ex.Tuple.(*ssa.Lookup)
				if !isLk || !isGlobalLoad(lk.X, "backwardRegistry") {
					continue
				}
				for _, o := range ph.Edges {
					if o != e && o == lk.Index {
						resolved = true
					}
				}
			}
		}
		if !resolved {
			// the resolution may live in a helper: key -> backwardRegistry[key] if present, else key
			if call, isCall := mu.Value.(*ssa.Call); isCall {
				if f := sx.Callee(call); f != nil && p.InModule(f) && f.Blocks != nil && len(call.Call.Args) == 1 && len(f.Params) == 1 {
					sawParam, sawLookup, other := false, false, false
					for _, r := range sx.Returns(f) {
						if len(r.Results) != 1 {
							other = true
							continue
						}
						var visit func(v ssa.Value, d int)
						visit = func(v ssa.Value, d int) {
							switch x := v.(type) {
							case *ssa.Parameter:
								if x == f.Params[0] {
									sawParam = true
								} else {
									other = true
								}
							case *ssa.Extract:
								lk, isLk := x.Tuple.(*ssa.Lookup)
								if isLk && x.Index == 0 && isGlobalLoad(lk.X, "backwardRegistry") && lk.Index == ssa.Value(f.Params[0]) {
									sawLookup = true
								} else {
									other = true
								}
							case *ssa.Phi:
								if d < 4 {
									for _, e := range x.Edges {
										visit(e, d+1)
									}
								} else {
									other = true
								}
							default:
								other = true
							}
						}
						visit(r.Results[0], 0)
					}
					resolved = sawParam && sawLookup && !other
				}
			}
		}
		c.Check(resolved, "errbase.RegisterTypeMigration: previous key resolved through the registry", mu.Pos(), "CLOSE-BACK: the stored previous key is backwardRegistry[prevKey] when prevKey is itself a migrated name",
			"the previous name is stored as given: when chained renames are registered oldest first (A->B, then B->C) the newest type is encoded under the intermediate name B instead of the original A, so the outcome depends on the registration order")
		// CLOSE-FWD: a loop re-targets entries that point at the new key to the same stored value
		fwd := false
		sx.EachInstr(mu.Parent(), func(in2 ssa.Instruction) {
			mu2, ok := in2.(*ssa.MapUpdate)
			if !ok || mu2 == mu || !isGlobalLoad(mu2.Map, "backwardRegistry") {
				return
			}
			if _, isExtract := mu2.Key.(*ssa.Extract); isExtract && mu2.Value == mu.Value {
				fwd = true
			}
		})
		if !fwd {
			// the loop may live in a helper that receives the stored value
			sx.EachInstr(mu.Parent(), func(in2 ssa.Instruction) {
				call, ok := in2.(*ssa.Call)
				if !ok {
					return
				}
				g := sx.Callee(call)
				if g == nil || !p.InModule(g) || g.Blocks == nil {
					return
				}
				for j, a := range call.Call.Args {
					if a != mu.Value || j >= len(g.Params) {
						continue
					}
					sx.EachInstr(g, func(in3 ssa.Instruction) {
						mu2, ok := in3.(*ssa.MapUpdate)
						if !ok || !isGlobalLoad(mu2.Map, "backwardRegistry") {
							return
						}
						if _, isExtract := mu2.Key.(*ssa.Extract); isExtract && mu2.Value == ssa.Value(g.Params[j]) {
							fwd = true
						}
					})
				}
			})
		}
		c.Check(fwd, "errbase.RegisterTypeMigration: entries pointing at the new key are re-targeted", mu.Pos(), "CLOSE-FWD: a loop over the registry stores the same previous key for them",
			"entries registered earlier that name the new key as their previous name are not forwarded to the original name (newest-first chains break)")
	})
	// LOOKUP: must-pass-through in getTypeDetails
	var lookup *ssa.Lookup
	regionOf(gtd).each(func(in ssa.Instruction) {
		if lk, ok := in.(*ssa.Lookup); ok && isGlobalLoad(lk.X, "backwardRegistry") {
			lookup = lk
		}
	})
	if lookup == nil {
		c.Fail("errbase.getTypeDetails: lookup in backwardRegistry", gtd.Pos(), "getTypeDetails no longer consults the migration registry")
	} else {
		e := originEngine(c)
		nRet := 0
		// the lookup may sit in a helper of getTypeDetails: then the helper's call stands for it, provided the lookup
		// lies on every path through the helper
		domBlock := lookup.Block()
		if h := lookup.Parent(); h != gtd {
			greg := regionOf(gtd)
			through := true
			for _, hr := range sx.Returns(h) {
				if !lookup.Block().Dominates(hr.Block()) {
					through = false
				}
			}
			if sites := greg.sites[h]; through && len(sites) == 1 && sites[0].Parent() == gtd {
				domBlock = sites[0].Block()
			}
		}
		for _, r := range sx.Returns(gtd) {
			// returns of the opaque arms are stored names
			isOpaque := false
			for k := range recvSubs(e, r.Results[0], nil) {
				if strings.HasPrefix(k, "opaque") {
					isOpaque = true
				}
			}
			if isOpaque {
				continue
			}
			nRet++
			c.Check(domBlock.Parent() == gtd && domBlock.Dominates(r.Block()), "errbase.getTypeDetails: every computed family name passes through the registry lookup", r.Pos(), "the lookup dominates this return",
				"a return of getTypeDetails is reachable without consulting backwardRegistry (cache / shortcut): a migration registered after the first use of the type is never seen")
		}
		c.Min("non-opaque returns of getTypeDetails", nRet, 2)
		// the key of the lookup is the freshly computed full type name
		ok := false
		if cv, isConv := lookup.Index.(*ssa.ChangeType); isConv {
			if call, isCall := cv.X.(*ssa.Call); isCall {
				if f := sx.Callee(call); f != nil && f.Name() == "getFullTypeName" {
					ok = true
				}
			}
		}
		if cv, isConv := lookup.Index.(*ssa.Convert); isConv {
			if call, isCall := cv.X.(*ssa.Call); isCall {
				if f := sx.Callee(call); f != nil && f.Name() == "getFullTypeName" {
					ok = true
				}
			}
		}
		c.Check(ok, "errbase.getTypeDetails: registry key", lookup.Pos(), "TypeKey(getFullTypeName(err))", "the registry is not looked up under the error's own full type name")
	}
	// ORDER + NOCHAIN
	cs := GetCensus(c)
	var news, prevs []string
	for _, mig := range cs.Migs {
		args := mig.Common().Args
		pp, okP := sx.ConstString(args[0])
		pn, okN := sx.ConstString(args[1])
		c.Check(okP && okN, "RegisterTypeMigration in "+load.FnName(mig.Parent())+": previous name", mig.Pos(), "written down as constants",
			"the previous package path / type name of a migration is computed at run time instead of being written down: computed from the present type (reflect.TypeOf(x).String(), also through a type alias) it is the PRESENT name, so the type is registered as renamed from a name it never had and errors under the real old name are no longer recognised")
		prevs = append(prevs, pp+"/"+pn)
		ts, ok := ConcreteTypes(p, args[2])
		if !ok || len(ts) != 1 {
			c.Undecided("RegisterTypeMigration target in "+load.FnName(mig.Parent()), mig.Pos(), "target type not resolvable")
			continue
		}
		target := ts[0]
		news = append(news, types.TypeString(target, nil))
		// every GetTypeKey(X) with X of the target type, in init code, must be ordered after the registration
		for _, r := range cs.Regs {
			for _, k := range r.KeyTypes {
				if !types.Identical(k, target) {
					continue
				}
				keyCall, _ := r.Site.Common().Args[0].(*ssa.Call)
				if keyCall == nil {
					continue
				}
				after := orderedAfter(p, mig, keyCall)
				c.Check(after, fmt.Sprintf("%s: GetTypeKey(%s) for %s vs its migration", load.FnName(keyCall.Parent()), load.TypeName(target), r.Kind), keyCall.Pos(), "evaluated after the migration is registered",
					"the type key of a migrated type is computed before its migration is registered: encoders/decoders are filed under the new name and old peers are not understood")
			}
		}
	}
	for _, n := range news {
		for _, pv := range prevs {
			c.Check(!strings.HasSuffix(n, pv), "migration chain "+pv, token.NoPos, "no registration's previous key is another's new key", "the module's own migrations form a chain (order-dependent registry state)")
		}
	}
	c.Min("type migrations registered by the module", len(cs.Migs), 1)
}

// orderedAfter: instruction b executes after call a during initialisation
// (same function: a dominates b or precedes it in the block; a inside a
// callee of the same function: the call site of that callee is used).
func orderedAfter(p *load.Program, a ssa.CallInstruction, b ssa.Instruction) bool {
	af, bf := a.Parent(), b.Parent()
	var ai ssa.Instruction = a
	if af != bf {
		// a is inside a helper called from bf?
		found := false
		sx.EachInstr(bf, func(in ssa.Instruction) {
			if call, ok := in.(ssa.CallInstruction); ok && sx.Callee(call) == af {
				ai, found = call, true
			}
		})
		if !found {
			// different init functions: same package → source order of init bodies; other package → import order
			return af.Pkg != bf.Pkg || af.Pos() < bf.Pos()
		}
	}
	if ai.Block() == b.Block() {
		for _, in := range b.Block().Instrs {
			if in == ai {
				return true
			}
			if in == b {
				return false
			}
		}
	}
	return ai.Block().Dominates(b.Block())
}

// ---------------------------------------------------------------------------
// C15

var rReport = &Rule{
	Name: "R-REPORT-SHAPE",
	Doc: "structural facts of BuildSentryReport: nil in gives (nil, nil) (nilness interpreter); the per-node visitor appends the node's stack and its safe details unconditionally and in lock-step (index i denotes one layer in both lists); every sentry.Exception carries Module = string(domains.GetDomain(err)) of the reported error " +
		"and Stacktrace = the stack collected for the same index as its type line; the message is written source-location first, then the redacted verbose rendering, then the composition section; extras[\"error types\"] is the per-layer type buffer; the exception list is reversed exactly once before it is stored",
	Run: runReportShape,
}

func runReportShape(c *core.Ctx) {
	p := c.P
	fn := p.Func("report", "BuildSentryReport")
	if fn == nil {
		c.InternalErr("report.BuildSentryReport", "anchor function not found")
		return
	}
	// nil
	s := nilEval(c).Call(fn, []absint.Nil{absint.IsNil})
	c.Check(s.Results[0] == absint.IsNil && s.Results[1] == absint.IsNil, "report.BuildSentryReport(nil)", fn.Pos(), "returns (nil, nil)", "a nil error does not yield (nil, nil): "+s.Results[0].String()+", "+s.Results[1].String())
	// visitor closure
	var visitor *ssa.Function
	// (the collection may sit in a helper of BuildSentryReport; visitAllMulti itself is not entered)
	regionOf(fn, p.Func("report", "visitAllMulti")).each(func(in ssa.Instruction) {
		if call, ok := in.(*ssa.Call); ok {
			if cal := sx.Callee(call); cal != nil && cal.Name() == "visitAllMulti" && len(call.Call.Args) == 2 {
				visitor = sx.FuncOf(call.Call.Args[1])
			}
		}
	})
	if visitor == nil {
		c.Undecided("report.BuildSentryReport: visitor", fn.Pos(), "the per-node visitor closure passed to visitAllMulti was not found")
	} else {
		nApp, uncond := 0, true
		srcs := map[string]bool{}
		sx.EachInstr(visitor, func(in ssa.Instruction) {
			call, ok := in.(*ssa.Call)
			if !ok {
				return
			}
			if b, ok := call.Call.Value.(*ssa.Builtin); ok && b.Name() == "append" {
				nApp++
				for _, r := range sx.Returns(visitor) {
					if !call.Block().Dominates(r.Block()) {
						uncond = false
					}
				}
				for _, e := range varargs(call.Call.Args[1]) {
					if cl, ok := e.(*ssa.Call); ok {
						if f := sx.Callee(cl); f != nil {
							srcs[f.Name()] = true
						}
					}
				}
			}
		})
		c.Check(nApp == 2 && uncond && srcs["GetReportableStackTrace"] && srcs["GetSafeDetails"], "report.BuildSentryReport: per-node collection", visitor.Pos(),
			"each visited node appends its reportable stack and its safe details, unconditionally", "stacks and safe details are no longer collected in lock-step for every visited node: exception/type lines get attributed to the wrong layer")
	}
	// exceptions: Module and Stacktrace
	exT := p.ExtNamed("github.com/getsentry/sentry-go", "Exception")
	// construction sites of an Exception, in BuildSentryReport's frame: a store
	// to the Module field of an Exception there, or a call to a same-package
	// helper that builds one and takes its Module from a parameter
	type excSite struct {
		block  *ssa.BasicBlock
		pos    token.Pos
		module ssa.Value
	}
	var sites []excSite
	moduleStores := func(f *ssa.Function) []*ssa.Store {
		var out []*ssa.Store
		sx.EachInstr(f, func(in ssa.Instruction) {
			st, ok := in.(*ssa.Store)
			if !ok {
				return
			}
			fa, ok := st.Addr.(*ssa.FieldAddr)
			if !ok || exT == nil || !types.Identical(sx.Deref(fa.X.Type()), exT) || sx.FieldOf(fa).Name() != "Module" {
				return
			}
			out = append(out, st)
		})
		return out
	}
	for _, st := range moduleStores(fn) {
		sites = append(sites, excSite{st.Block(), st.Pos(), st.Val})
	}
	sx.EachInstr(fn, func(in ssa.Instruction) {
		call, ok := in.(*ssa.Call)
		if !ok {
			return
		}
		h := sx.Callee(call)
		if h == nil || h.Pkg != fn.Pkg || h == fn || h.Blocks == nil {
			return
		}
		for _, st := range moduleStores(h) {
			var mv ssa.Value
			for i, prm := range h.Params {
				if st.Val == ssa.Value(prm) && i < len(call.Call.Args) {
					mv = call.Call.Args[i]
				}
			}
			sites = append(sites, excSite{call.Block(), call.Pos(), mv})
		}
	})
	nExc := 0
	for _, site := range sites {
		nExc++
		// string(domains.GetDomain(err))
		v := site.module
		for i := 0; i < 3 && v != nil; i++ {
			if cv, ok := v.(*ssa.Convert); ok {
				v = cv.X
			} else if cv, ok := v.(*ssa.ChangeType); ok {
				v = cv.X
			}
		}
		call, _ := v.(*ssa.Call)
		ok2 := call != nil && sx.Callee(call) != nil && sx.Callee(call).Name() == "GetDomain" && call.Call.Args[0] == ssa.Value(fn.Params[0])
		c.Check(ok2, "report.BuildSentryReport: Exception.Module", site.pos, "the domain of the reported error", "an exception's module is not the domain of the reported error")
	}
	c.Min("sentry.Exception literals", nExc, 2)
	// the synthetic exception (the Exception built outside the layer loop) is added exactly when no layer produced
	// one: its construction is dominated by len(<exception list>) == 0
	inLoop := map[*ssa.BasicBlock]bool{}
	for _, l := range naturalLoops(fn) {
		for b := range l.Body {
			inLoop[b] = true
		}
	}
	nSynth := 0
	for _, site := range sites {
		if inLoop[site.block] {
			continue
		}
		nSynth++
		guarded := false
		for _, l := range dominatingLits(site.block) {
			bin, isBin := l.V.(*ssa.BinOp)
			if !isBin {
				continue
			}
			call, isCall := bin.X.(*ssa.Call)
			k, isK := sx.ConstInt(bin.Y)
			if !isCall || !isK || k != 0 {
				continue
			}
			if b, isB := call.Call.Value.(*ssa.Builtin); !isB || b.Name() != "len" {
				continue
			}
			sl, isSl := types.Unalias(call.Call.Args[0].Type()).Underlying().(*types.Slice)
			if !isSl || !types.Identical(sl.Elem(), exT) {
				continue
			}
			if (bin.Op == token.EQL && !l.Neg) || (bin.Op == token.NEQ && l.Neg) || (bin.Op == token.GTR && l.Neg) {
				guarded = true
			}
		}
		c.Check(guarded, "report.BuildSentryReport: synthetic exception", site.pos, "built only when the list of exceptions is empty (len == 0)",
			"the synthetic exception is not guarded by 'no exception was collected' (another notion of 'has a stack' decides): trees whose stacks sit below a multi-cause node get a stack-less extra exception besides the real ones")
	}
	c.Check(nSynth >= 1, "report.BuildSentryReport: synthetic exception present", fn.Pos(), "an Exception is built outside the layer loop", "the synthetic exception for stack-less errors is no longer built")
	// message write order: source location, verbose rendering, composition header
	var order []string
	for _, b := range fn.DomPreorder() {
		for _, in := range b.Instrs {
			call, ok := in.(*ssa.Call)
			if !ok || len(call.Call.Args) < 2 {
				continue
			}
			f := sx.Callee(call)
			if f == nil {
				continue
			}
			dst := describeVal(stripIface(call.Call.Args[0]))
			if !strings.Contains(dst, "longMsgBuf") && !strings.Contains(fmt.Sprint(call.Call.Args[0]), "longMsgBuf") {
				// destination naming is not available in SSA without debug info; fall back to the value's comment
			}
			if s, ok := sx.ConstString(call.Call.Args[1]); ok {
				switch {
				case s == "%s:%d: " && len(order) == 0:
					order = append(order, "source")
					// the location printed is GetOneLineSource of the reported error itself (the innermost stack of its
					// single chain of causes), under that call's ok result
					okSrc := false
					if len(call.Call.Args) >= 3 {
						vs := varargs(call.Call.Args[2])
						if len(vs) == 2 {
							e0, is0 := stripIface(vs[0]).(*ssa.Extract)
							e1, is1 := stripIface(vs[1]).(*ssa.Extract)
							if is0 && is1 && e0.Tuple == e1.Tuple && e0.Index == 0 && e1.Index == 1 {
								if src, isCall := e0.Tuple.(*ssa.Call); isCall && sx.Callee(src) != nil && sx.Callee(src).Name() == "GetOneLineSource" && len(src.Call.Args) == 1 && src.Call.Args[0] == ssa.Value(fn.Params[0]) {
									for _, l := range dominatingLits(call.Block()) {
										if ex, isEx := l.V.(*ssa.Extract); isEx && ex.Tuple == e0.Tuple && ex.Index == 3 && !l.Neg {
											okSrc = true
										}
									}
								}
							}
						}
					}
					c.Check(okSrc, "report.BuildSentryReport: source prefix", call.Pos(), "file and line of withstack.GetOneLineSource(err), when it reports ok",
						"the file:line prefix of the message is not taken from GetOneLineSource of the reported error: for multi-cause trees (whose members carry stacks but whose single chain does not) a location appears that is not the innermost recorded source of the error")
				case strings.Contains(s, "report composition"):
					order = append(order, "composition")
				}
			}
			if f.Name() == "Fprint" {
				order = append(order, "verbose")
			}
		}
	}
	c.Check(strings.Join(order, ",") == "source,verbose,composition", "report.BuildSentryReport: message layout", fn.Pos(), "source location, then verbose rendering, then composition section",
		"the message is no longer written in the documented order (got "+strings.Join(order, ",")+")")
	// extras["error types"]
	okExtra := false
	sx.EachInstr(fn, func(in ssa.Instruction) {
		if mu, ok := in.(*ssa.MapUpdate); ok {
			if k, ok := sx.ConstString(stripIface(mu.Key)); ok && k == "error types" {
				if call, ok := stripIface(mu.Value).(*ssa.Call); ok && sx.Callee(call) != nil && sx.Callee(call).Name() == "String" {
					okExtra = true
				}
			}
		}
	})
	c.Check(okExtra, "report.BuildSentryReport: extras[\"error types\"]", fn.Pos(), "the per-layer type buffer", "the 'error types' extra is no longer the per-layer type buffer")
	// reversal exactly once
	nRev := 0
	sx.EachInstr(fn, func(in ssa.Instruction) {
		if call, ok := in.(*ssa.Call); ok {
			if f := sx.Callee(call); f != nil && f.Name() == "reverseExceptionOrder" {
				nRev++
			}
		}
	})
	c.Check(nRev == 1, "report.BuildSentryReport: exception order", fn.Pos(), "reversed exactly once", fmt.Sprintf("the exception list is reversed %d times", nRev))
}

// ---------------------------------------------------------------------------
// C20

var rGrpcFlow = &Rule{
	Name: "R-GRPC-FLOW",
	Doc: "value-identity flow through the two interceptors. Server: on the err == nil edge the handler's results are returned unchanged; status.FromError is applied to the handler's error ITSELF (not to a part of it) and on its ok edge that status' Err() is returned; otherwise the code comes from extgrpc.GetGrpcCode(err), the detail from errors.EncodeError(ctx, err) of the same err, and the returned error from that WithDetails status. " +
		"Client: the decoded error comes from errors.DecodeError of a detail asserted to *errors.EncodedError (the type the server attaches); when none is found the invoker's error value itself is returned",
	Run: runGrpcFlow,
}

func runGrpcFlow(c *core.Ctx) {
	p := c.P
	srv, cli := p.Func("grpc/middleware", "UnaryServerInterceptor"), p.Func("grpc/middleware", "UnaryClientInterceptor")
	if srv == nil || cli == nil {
		c.InternalErr("grpc/middleware interceptors", "anchor functions not found")
		return
	}
	// ---- server
	var hcall *ssa.Call
	sx.EachInstr(srv, func(in ssa.Instruction) {
		if call, ok := in.(*ssa.Call); ok && sx.Callee(call) == nil && !call.Call.IsInvoke() && len(srv.Params) >= 4 && call.Call.Value == ssa.Value(srv.Params[3]) {
			hcall = call
		}
	})
	if hcall == nil {
		c.Undecided("grpc/middleware.UnaryServerInterceptor", srv.Pos(), "call of the handler not found")
		return
	}
	var hresp, herr ssa.Value
	for _, r := range *hcall.Referrers() {
		if ex, ok := r.(*ssa.Extract); ok {
			if ex.Index == 0 {
				hresp = ex
			} else {
				herr = ex
			}
		}
	}
	// the interceptor and the unexported helpers it hands parts of the work to; a helper's parameter stands for
	// the argument it receives
	sreg := regionOf(srv)
	argIs := func(call *ssa.Call, idx int, v ssa.Value) bool {
		return idx < len(call.Call.Args) && (identity(call.Call.Args[idx]) == v || identity(sreg.resolve(identity(call.Call.Args[idx]))) == v)
	}
	var fromErr, getCode, encode *ssa.Call
	sreg.each(func(in ssa.Instruction) {
		call, ok := in.(*ssa.Call)
		if !ok {
			return
		}
		f := sx.Callee(call)
		if f == nil {
			return
		}
		switch f.Name() {
		case "FromError":
			fromErr = call
		case "GetGrpcCode":
			getCode = call
		case "EncodeError":
			encode = call
		}
	})
	c.Check(fromErr != nil && argIs(fromErr, 0, herr), "server: status.FromError(err)", srv.Pos(), "applied to the handler's error itself",
		"status.FromError is not applied to the handler's own error value (a part of the chain is inspected instead): wrappers around a status error are dropped and the visible code changes")
	sawGetCode := getCode != nil && argIs(getCode, 0, herr)
	c.Check(encode != nil && argIs(encode, 1, herr), "server: errors.EncodeError(ctx, err)", srv.Pos(), "the handler's error itself is encoded", "the encoded detail is not the handler's error itself")
	// the status message is the error's own text
	sreg.each(func(in ssa.Instruction) {
		call, ok := in.(*ssa.Call)
		if !ok || sx.Callee(call) == nil || sx.Callee(call).Name() != "New" || len(call.Call.Args) != 2 {
			return
		}
		if pk := load.FnPkg(sx.Callee(call)); pk == nil || !strings.Contains(pk.Path(), "status") {
			return
		}
		// the status of a non-nil error is never OK: gRPC reports success for an OK status and refuses to attach
		// details to it, so the code taken from the error (which a caller may have set to codes.OK) is replaced
		// on that edge
		// codeExpr: v is never codes.OK and is the code of errVal (GetGrpcCode(errVal), also inside a helper of the
		// package that receives errVal), a non-zero constant, or a merge of such values
		var codeExpr func(v ssa.Value, lits []lit, errVal ssa.Value, d int) bool
		codeExpr = func(v ssa.Value, lits []lit, errVal ssa.Value, d int) bool {
			if d > 6 {
				return false
			}
			switch x := v.(type) {
			case *ssa.Const:
				k, isK := sx.ConstInt(x)
				return isK && k != 0
			case *ssa.Phi:
				for i, e := range x.Edges {
					if !codeExpr(e, edgeLits(x.Block().Preds[i], x.Block()), errVal, d+1) {
						return false
					}
				}
				return true
			case *ssa.Call:
				callee := sx.Callee(x)
				if callee == nil {
					return false
				}
				if callee.Name() == "GetGrpcCode" && len(x.Call.Args) == 1 {
					if identity(x.Call.Args[0]) != errVal && x.Call.Args[0] != errVal && identity(sreg.resolve(identity(x.Call.Args[0]))) != errVal {
						return false
					}
					if errVal == herr {
						sawGetCode = true
					}
					for _, l := range lits {
						bin, isBin := l.V.(*ssa.BinOp)
						if !isBin {
							continue
						}
						var other ssa.Value
						if bin.X == ssa.Value(x) {
							other = bin.Y
						} else if bin.Y == ssa.Value(x) {
							other = bin.X
						}
						if k, isK := sx.ConstInt(other); other != nil && isK && k == 0 {
							if (bin.Op == token.EQL && l.Neg) || (bin.Op == token.NEQ && !l.Neg) {
								return true
							}
						}
					}
					return false
				}
				// a helper of the module that receives the error
				if !p.InModule(callee) || callee.Blocks == nil {
					return false
				}
				for j, a := range x.Call.Args {
					if (identity(a) == errVal || a == errVal || identity(sreg.resolve(identity(a))) == errVal) && j < len(callee.Params) {
						okAll := true
						for _, r := range sx.Returns(callee) {
							if len(r.Results) != 1 || !codeExpr(r.Results[0], dominatingLits(r.Block()), callee.Params[j], d+1) {
								okAll = false
							}
						}
						if okAll && errVal == herr {
							sawGetCode = sawGetCode || helperCallsGetCode(callee, callee.Params[j])
						}
						return okAll
					}
				}
				return false
			}
			return false
		}
		codeOK := codeExpr(call.Call.Args[0], sreg.lits(call.Block()), herr, 0)
		c.Check(codeOK, "server: status.New(code, ...) for a non-nil error", call.Pos(), "the code is never codes.OK (the error's own code, replaced when it is OK)",
			"the status for a non-nil handler error is built with the error's code unchecked: for an error carrying codes.OK (WrapWithGrpcCode(err, codes.OK)) gRPC refuses the details - the interceptor panics - and an OK status would report success")
		// the message is the handler error's text, made valid UTF-8: the status message is a protobuf string, and
		// gRPC, failing to marshal a status whose message is not valid UTF-8, sends it without its details - the
		// encoded error never reaches the client
		msgArg := call.Call.Args[1]
		sanitised := false
		if tv, isTV := msgArg.(*ssa.Call); isTV && sx.Callee(tv) != nil && sx.Callee(tv).Name() == "ToValidUTF8" && load.FnPkg(sx.Callee(tv)) != nil && load.FnPkg(sx.Callee(tv)).Path() == "strings" && len(tv.Call.Args) == 2 {
			if rep, isK := sx.ConstString(tv.Call.Args[1]); isK && utf8.ValidString(rep) {
				sanitised = true
				msgArg = tv.Call.Args[0]
			}
		}
		msg, isCall := msgArg.(*ssa.Call)
		ok2 := isCall && msg.Call.IsInvoke() && msg.Call.Method.Name() == "Error" && (msg.Call.Value == herr || identity(sreg.resolve(identity(msg.Call.Value))) == herr)
		c.Check(ok2, "server: status.New(code, err.Error())", call.Pos(), "the status message is the handler error's text", "the gRPC status message is not the handler error's Error() text (it is transformed by something else than strings.ToValidUTF8 first): the status differs from the error")
		c.Check(sanitised, "server: status message is valid UTF-8", call.Pos(), "strings.ToValidUTF8(err.Error(), …)", "the gRPC status message is the raw Error() text: when it is not valid UTF-8 (a key, a file name, user input quoted in the message) gRPC fails to marshal the status and sends it without details, so the caller receives a bare status error instead of the handler's error")
	})
	// round 12: the status that RECEIVES the details is one that the interceptor built with status.New (whose message the
	// clause above proves valid UTF-8) on every path - never the status that status.FromError prepared on its not-ok edge:
	// that one carries the raw Error() text (FromError(err) = New(Unknown, err.Error())), so for a text that is not
	// valid UTF-8 gRPC drops the details and the caller receives a bare status
	nWD := 0
	sreg.each(func(in ssa.Instruction) {
		call, ok := in.(*ssa.Call)
		if !ok || sx.Callee(call) == nil || sx.Callee(call).Name() != "WithDetails" || sx.Callee(call).Signature.Recv() == nil || len(call.Call.Args) < 1 {
			return
		}
		nWD++
		var built func(v ssa.Value, d int) bool
		seen := map[ssa.Value]bool{}
		built = func(v ssa.Value, d int) bool {
			if d > 6 {
				return false
			}
			if seen[v] {
				return true
			}
			seen[v] = true
			switch x := v.(type) {
			case *ssa.Phi:
				for _, e := range x.Edges {
					if !built(e, d+1) {
						return false
					}
				}
				return true
			case *ssa.Parameter:
				if r := sreg.resolve(x); r != nil && r != ssa.Value(x) {
					return built(r, d+1)
				}
				return false
			case *ssa.Call:
				f := sx.Callee(x)
				if f == nil {
					return false
				}
				if pk := load.FnPkg(f); f.Name() == "New" && len(x.Call.Args) == 2 && pk != nil && strings.Contains(pk.Path(), "status") {
					return true
				}
				if sreg.in[f] && f != srv {
					rets := sx.Returns(f)
					for _, hr := range rets {
						if len(hr.Results) != 1 || !built(hr.Results[0], d+1) {
							return false
						}
					}
					return len(rets) > 0
				}
			}
			return false
		}
		c.Check(built(call.Call.Args[0], 0), "server: status that receives the details", call.Pos(), "built by status.New(code, valid-UTF-8 text) on every path",
			"on some path the details are attached to a status that the interceptor did not build with status.New (the status prepared by status.FromError on its not-ok edge carries the raw Error() text): when that text is not valid UTF-8 gRPC fails to marshal the status and sends it without details, so the caller receives a bare status error instead of the handler's error")
	})
	c.Check(nWD >= 1, "server: WithDetails", srv.Pos(), "the encoded error is attached with WithDetails", "the interceptor no longer attaches the encoded error with WithDetails")
	c.Check(sawGetCode, "server: extgrpc.GetGrpcCode(err)", srv.Pos(), "code taken from the handler's error", "the gRPC code is not computed from the handler's error")
	// grpc/status.Code forwards to extgrpc.GetGrpcCode, nothing else
	if codeFn := p.Func("grpc/status", "Code"); codeFn != nil {
		okCode := true
		nCalls := 0
		sx.EachInstr(codeFn, func(in ssa.Instruction) {
			if call, ok := in.(*ssa.Call); ok {
				nCalls++
				if f := sx.Callee(call); f == nil || f.Name() != "GetGrpcCode" || call.Call.Args[0] != ssa.Value(codeFn.Params[0]) {
					okCode = false
				}
			}
		})
		c.Check(okCode && nCalls == 1 && len(codeFn.Blocks) == 1, "grpc/status.Code(err)", codeFn.Pos(), "exactly extgrpc.GetGrpcCode(err)", "status.Code no longer returns exactly the code attached with WrapWithGrpcCode (another source of codes takes precedence)")
	}
	// returns
	for _, r := range sx.Returns(srv) {
		lits := dominatingLits(r.Block())
		respOK := identity(r.Results[0]) == hresp
		c.Check(respOK, "server: response passes through", r.Pos(), "the handler's response", "the handler's response is not returned unchanged")
		nilEdge := false
		for _, l := range lits {
			if bo, ok := l.V.(*ssa.BinOp); ok && bo.Op == token.EQL && !l.Neg && (bo.X == herr && sx.IsNil(bo.Y) || bo.Y == herr && sx.IsNil(bo.X)) {
				nilEdge = true
			}
		}
		if nilEdge {
			c.Check(identity(r.Results[1]) == herr || sx.IsNil(r.Results[1]), "server: nil error passes through", r.Pos(), "returns the handler's (nil) error", "on the err == nil path something else than the handler's error is returned")
			continue
		}
		// st.Err() where st is phi(FromError's status, WithDetails' status)
		call, ok := r.Results[1].(*ssa.Call)
		okErr := ok && sx.Callee(call) != nil && sx.Callee(call).Name() == "Err" && len(call.Call.Args) == 1
		if okErr {
			// the status is the one FromError found in the handler's error, or the one WithDetails built for it
			var okStatus func(v ssa.Value, d int) bool
			okStatus = func(v ssa.Value, d int) bool {
				if d > 4 {
					return false
				}
				switch x := v.(type) {
				case *ssa.Phi:
					for _, e := range x.Edges {
						if !okStatus(e, d+1) {
							return false
						}
					}
					return true
				case *ssa.Extract:
					src, isCall := x.Tuple.(*ssa.Call)
					if !isCall || x.Index != 0 {
						return false
					}
					if src == fromErr {
						return true
					}
					if h := sx.Callee(src); h != nil && sreg.in[h] && h != srv {
						// a helper of the interceptor: what it returns at that position
						rets := sx.Returns(h)
						for _, hr := range rets {
							if x.Index >= len(hr.Results) || !okStatus(hr.Results[x.Index], d+1) {
								return false
							}
						}
						return len(rets) > 0
					}
					return sx.Callee(src) != nil && sx.Callee(src).Name() == "WithDetails"
				case *ssa.Call:
					// a helper of the interceptor that returns the status alone (it panics where WithDetails fails)
					if h := sx.Callee(x); h != nil && sreg.in[h] && h != srv {
						rets := sx.Returns(h)
						for _, hr := range rets {
							if len(hr.Results) != 1 || !okStatus(hr.Results[0], d+1) {
								return false
							}
						}
						return len(rets) > 0
					}
				}
				return false
			}
			okErr = okStatus(call.Call.Args[0], 0)
		}
		c.Check(okErr, "server: returned error", r.Pos(), "the Err() of the status found in, or built for, the handler's error", "the returned error is not the Err() of the status built for the handler's error (another status - e.g. one derived from the context - is returned on some path): text, identity, annotations and code of the handler's error are lost")
	}
	// ---- client
	var icall *ssa.Call
	sx.EachInstr(cli, func(in ssa.Instruction) {
		if call, ok := in.(*ssa.Call); ok && sx.Callee(call) == nil && !call.Call.IsInvoke() && len(cli.Params) >= 6 && call.Call.Value == ssa.Value(cli.Params[5]) {
			icall = call
		}
	})
	if icall == nil {
		c.Undecided("grpc/middleware.UnaryClientInterceptor", cli.Pos(), "call of the invoker not found")
		return
	}
	// the decoding of the details may sit in a same-package helper: then the helper's result stands for the decoded
	// error in the client's frame, provided the helper returns nothing but the decoded error (or nil)
	var dec, innerDec *ssa.Call
	var assertT types.Type
	creg := regionOf(cli)
	creg.each(func(in ssa.Instruction) {
		switch x := in.(type) {
		case *ssa.Call:
			if f := sx.Callee(x); f != nil && f.Name() == "DecodeError" {
				innerDec = x
			}
		case *ssa.TypeAssert:
			assertT = x.AssertedType
		}
	})
	dec = innerDec
	for hops := 0; dec != nil && dec.Parent() != cli && hops < 4; hops++ {
		h := dec.Parent()
		onlyDecoded := true
		for _, r := range sx.Returns(h) {
			if len(r.Results) != 1 {
				onlyDecoded = false
				continue
			}
			var visit func(x ssa.Value, d int)
			seen := map[ssa.Value]bool{}
			visit = func(x ssa.Value, d int) {
				if seen[x] || d > 6 {
					return
				}
				seen[x] = true
				switch y := x.(type) {
				case *ssa.Phi:
					for _, e := range y.Edges {
						visit(e, d+1)
					}
				case *ssa.Call:
					if y != dec {
						onlyDecoded = false
					}
				case *ssa.Const:
				default:
					onlyDecoded = false
				}
			}
			visit(r.Results[0], 0)
		}
		sites := creg.sites[h]
		if !onlyDecoded || len(sites) != 1 {
			c.Undecided("grpc/middleware.UnaryClientInterceptor", h.Pos(), "the helper that decodes the details returns something besides the decoded error, or is called from several places")
			return
		}
		dec = sites[0]
	}
	encT := p.ExtNamed(load.ModPath+"/errorspb", "EncodedError")
	c.Check(dec != nil && assertT != nil && encT != nil && types.Identical(sx.Deref(assertT), encT), "client: detail type", cli.Pos(), "*errors.EncodedError, the type the server attaches", "the client does not look for the detail type the server attaches")
	// every detail of the received status is looked at: the value tested for being an *EncodedError is the element of
	// a loop over st.Details() - not one fixed position (another interceptor or a relaying proxy may add details
	// before or after the one the server interceptor attaches)
	creg.each(func(in ssa.Instruction) {
		ta, ok := in.(*ssa.TypeAssert)
		if !ok || encT == nil || !types.Identical(sx.Deref(ta.AssertedType), encT) {
			return
		}
		v := identity(creg.resolve(identity(ta.X)))
		construct := "client: every detail of the status is examined"
		ld, isLd := v.(*ssa.UnOp)
		var ia *ssa.IndexAddr
		if isLd {
			ia, _ = ld.X.(*ssa.IndexAddr)
		}
		if ia == nil {
			if _, isNext := v.(*ssa.Extract); isNext {
				return // element of a range over something else than a slice: not an index at all
			}
			c.Undecided(construct, ta.Pos(), "the value tested for *EncodedError is not an element of the details slice")
			return
		}
		loops := naturalLoops(ta.Parent())
		idx := ia.Index
		induct := false
		if bo, isBO := idx.(*ssa.BinOp); isBO && bo.Op == token.ADD {
			induct = isLoopCounter(bo, loops)
		} else if ph, isPhi := idx.(*ssa.Phi); isPhi {
			for _, l := range loops {
				if l.Header == ph.Block() {
					for _, e := range ph.Edges {
						if bo, isBO := e.(*ssa.BinOp); isBO && bo.Op == token.ADD && (bo.X == ssa.Value(ph) || bo.Y == ssa.Value(ph)) {
							induct = true
						}
					}
				}
			}
		}
		// ... over the whole list the status hands out
		whole := false
		if dc, isCall := identity(creg.resolve(identity(ia.X))).(*ssa.Call); isCall {
			whole = sx.InvokeName(dc) == "Details" || (sx.Callee(dc) != nil && sx.Callee(dc).Name() == "Details")
		}
		c.Check(whole, "client: the examined list is the status' Details()", ta.Pos(), "the loop ranges over st.Details() itself",
			"the client examines a part of the status details ("+describeVal(ia.X)+") instead of the whole list: an encoded error outside that part is not found and the caller receives the bare status error")
		c.Check(induct, construct, ta.Pos(), "the tested detail is the element of a loop over the details",
			"the client looks for the encoded error at one computed position of the status details ("+describeVal(idx)+") instead of examining every detail: when anything else adds a detail (another server interceptor, a relaying proxy) the encoded error is not found and the caller receives the bare status error")
	})
	// returned value: phi(invoker err, decoded) — every non-decoded edge is the invoker's error itself
	sawInvoker, sawDecoded := false, false
	for _, r := range sx.Returns(cli) {
		v := r.Results[0]
		okAll := true
		var visit func(x ssa.Value, d int)
		seen := map[ssa.Value]bool{}
		visit = func(x ssa.Value, d int) {
			if seen[x] || d > 6 {
				return
			}
			seen[x] = true
			switch y := x.(type) {
			case *ssa.Phi:
				for _, e := range y.Edges {
					visit(e, d+1)
				}
			case *ssa.Call:
				if y == icall {
					sawInvoker = true
				} else if y == dec {
					sawDecoded = true
				} else {
					okAll = false
				}
			case *ssa.Const:
				// nil initial value of the accumulator
			default:
				okAll = false
			}
		}
		visit(v, 0)
		// a return that yields the invoker's error and nothing else is the 'no encoded error found' outcome: it must
		// come after the details were looked at, i.e. under the test that nothing was decoded
		if okAll {
			onlyInvoker := identity(v) == ssa.Value(icall) || v == ssa.Value(icall)
			if ex, isEx := v.(*ssa.Extract); isEx && ex.Tuple == ssa.Value(icall) {
				onlyInvoker = true
			}
			if onlyInvoker {
				afterLook := false
				for _, l := range dominatingLits(r.Block()) {
					bin, isBin := l.V.(*ssa.BinOp)
					if !isBin || (bin.Op != token.EQL && bin.Op != token.NEQ) {
						continue
					}
					var other ssa.Value
					if sx.IsNil(bin.Y) {
						other = bin.X
					} else if sx.IsNil(bin.X) {
						other = bin.Y
					}
					if other == nil || !derivesFromValue(other, dec, 0) {
						continue
					}
					if (bin.Op == token.NEQ && l.Neg) || (bin.Op == token.EQL && !l.Neg) {
						afterLook = true
					}
				}
				c.Check(afterLook, "client: pass-through of the invoker's error", r.Pos(), "only where nothing was decoded (decoded == nil)",
					"the invoker's error is returned on a path that does not depend on what the details held (e.g. an early return for some status codes): an encoded error attached by the server is ignored there")
			}
		}
		c.Check(okAll, "client: returned error", r.Pos(), "either the decoded error or the invoker's error value itself",
			"the client returns something other than the decoded error or the invoker's own error (e.g. a status rebuilt from it): pass-through errors change type/identity")
	}
	// a decoded error is used unconditionally: no test computed from the decoded error (or from the received status'
	// code) decides whether it replaces the invoker's error
	if dec != nil {
		var condBad string
		var checkUses func(v ssa.Value, d int)
		seenU := map[ssa.Value]bool{}
		checkUses = func(v ssa.Value, d int) {
			if seenU[v] || d > 6 || v.Referrers() == nil {
				return
			}
			seenU[v] = true
			for _, r := range *v.Referrers() {
				ph, ok := r.(*ssa.Phi)
				if !ok {
					continue
				}
				for i, e := range ph.Edges {
					if e != v {
						continue
					}
					// the tests on the edge into the merge and those that dominate the edge's source block
					for _, l := range append(edgeLits(ph.Block().Preds[i], ph.Block()), dominatingLits(ph.Block().Preds[i])...) {
						if dependsOnValue(l.V, v, map[ssa.Value]bool{}, 0) || dependsOnValue(l.V, dec, map[ssa.Value]bool{}, 0) {
							if bin, isBin := l.V.(*ssa.BinOp); isBin && (sx.IsNil(bin.X) || sx.IsNil(bin.Y)) {
								continue // a nil test of the decoded error is fine
							}
							condBad = "a condition computed from the decoded error"
						}
						if dependsOnCall(l.V, "Code", map[ssa.Value]bool{}, 0) {
							condBad = "the code of the received status"
						}
					}
				}
				checkUses(ph, d+1)
			}
		}
		checkUses(dec, 0)
		if innerDec != dec {
			checkUses(innerDec, 0)
		}
		c.Check(condBad == "", "client: decoded error accepted unconditionally", dec.Pos(), "every decoded EncodedError detail replaces the invoker's error",
			"whether the decoded error is used depends on "+condBad+": for some errors (e.g. one carrying codes.OK, which travels under status Unknown) the caller gets the bare status error instead of the error the handler returned")
	}
	c.Check(sawInvoker && sawDecoded, "client: both outcomes are returned", cli.Pos(), "the decoded error on some path, the invoker's error on another",
		"the client never returns the decoded error, or never passes the invoker's error through")
}

// helperCallsGetCode: fn calls extgrpc.GetGrpcCode on its parameter p.
func helperCallsGetCode(fn *ssa.Function, p *ssa.Parameter) bool {
	found := false
	sx.EachInstr(fn, func(in ssa.Instruction) {
		if call, ok := in.(*ssa.Call); ok && sx.Callee(call) != nil && sx.Callee(call).Name() == "GetGrpcCode" && len(call.Call.Args) == 1 && call.Call.Args[0] == ssa.Value(p) {
			found = true
		}
	})
	return found
}
