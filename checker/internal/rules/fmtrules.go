package rules

import (
	"fmt"
	"go/types"
	"strings"

	"golang.org/x/tools/go/ssa"

	"verif/checker/internal/core"
	"verif/checker/internal/load"
	"verif/checker/internal/sx"
)

// instantiated reports the module error types that are built somewhere in
// hand-written module code (allocation or value literal).
func instantiated(c *core.Ctx) map[*types.Named]bool {
	if v, ok := c.Cache["instantiated"]; ok {
		return v.(map[*types.Named]bool)
	}
	out := map[*types.Named]bool{}
	cs := GetCensus(c)
	for _, fn := range c.P.HandFuncs() {
		sx.EachInstr(fn, func(in ssa.Instruction) {
			var t types.Type
			switch x := in.(type) {
			case *ssa.Alloc:
				t = sx.Deref(x.Type())
			case *ssa.MakeInterface:
				t = x.X.Type()
			default:
				return
			}
			if et := cs.ErrTypeOf(t); et != nil {
				if _, isPtrToPtr := t.(*types.Pointer); !isPtrToPtr || true {
					// (*T)(nil) constants boxed for GetTypeKey are not instantiations
					if mi, ok := in.(*ssa.MakeInterface); ok {
						if _, isConst := mi.X.(*ssa.Const); isConst {
							return
						}
						if _, isAlloc := mi.X.(*ssa.Alloc); !isAlloc {
							return
						}
					}
					out[et.Named] = true
				}
			}
		})
	}
	c.Cache["instantiated"] = out
	return out
}

// ---------------------------------------------------------------------------
// R-WRAP-DUAL

var rWrapDual = &Rule{
	Name: "R-WRAP-DUAL",
	Doc:  "every module error type that exposes a single cause implements BOTH Cause() error and Unwrap() error, each a plain return of the same error-typed receiver field (so the stdlib, pkg/errors and this library traverse the chain identically); multi-cause types implement neither",
	Run: func(c *core.Ctx) {
		n := 0
		for _, et := range GetCensus(c).ErrTypes {
			sh := GetShapes(c)[et.Named]
			if !sh.HasCause && !sh.HasUnwrap {
				if sh.MultiField != nil {
					c.Ob(et.Name(), et.Named.Obj().Pos(), true, "multi-cause type: Unwrap() []error returns field "+sh.MultiField.Name()+"; no Cause()/Unwrap() error")
				}
				continue
			}
			n++
			pos := et.Named.Obj().Pos()
			switch {
			case sh.MultiField != nil:
				c.Fail(et.Name(), pos, "type has both a single-cause accessor and Unwrap() []error")
			case !sh.HasCause:
				c.Fail(et.Name(), pos, "wrapper implements Unwrap() but not Cause(): pkg/errors-style traversal stops here")
			case !sh.HasUnwrap:
				c.Fail(et.Name(), pos, "wrapper implements Cause() but not Unwrap(): stdlib errors.Is/As/Unwrap stop here")
			case sh.CauseWhy != "":
				if strings.Contains(sh.CauseWhy, "not the same field") {
					c.Fail(et.Name(), pos, sh.CauseWhy)
				} else {
					c.Undecided(et.Name(), pos, sh.CauseWhy)
				}
			case !sx.IsErrorType(sh.CauseField.Type()):
				c.Fail(et.Name(), pos, "cause field is not of type error")
			default:
				c.Ob(et.Name(), pos, true, "Cause() and Unwrap() both return field "+sh.CauseField.Name())
			}
		}
		c.Min("single-cause wrapper types", n, 17)
	},
}

// ---------------------------------------------------------------------------
// R-FMT-DELEGATE

var rFmtDelegate = &Rule{
	Name: "R-FMT-DELEGATE",
	Doc: "every module error type that is instantiated somewhere has a Format(fmt.State, rune) method whose body is exactly one call of errbase.FormatError (directly or through the root forwarder) with (receiver, state, verb) in that order, " +
		"and implements SafeFormatError or FormatError - the code-level reason all verbs go through one dispatcher",
	Run: runFmtDelegate,
}

// fmtDelegateTabled: construct → reason.
var fmtDelegateTabled = map[string]string{
	"errbase.errorFormatter": "the Formattable adapter: formats the wrapped error (its field) instead of itself, by design",
}

func runFmtDelegate(c *core.Ctx) {
	p := c.P
	cs := GetCensus(c)
	inst := instantiated(c)
	fe := p.Func("errbase", "FormatError")
	if fe == nil {
		c.InternalErr("errbase.FormatError", "anchor function not found")
		return
	}
	isFormatError := func(f *ssa.Function) bool {
		if f == fe {
			return true
		}
		// root forwarder: single call to errbase.FormatError with its params in order
		if f != nil && f.Name() == "FormatError" && p.InModule(f) && len(f.Params) == 3 {
			ok := false
			calls := 0
			sx.EachInstr(f, func(in ssa.Instruction) {
				if call, isCall := in.(*ssa.Call); isCall {
					calls++
					if sx.Callee(call) == fe && len(call.Call.Args) == 3 && call.Call.Args[0] == f.Params[0] && call.Call.Args[1] == f.Params[1] && call.Call.Args[2] == f.Params[2] {
						ok = true
					}
				}
			})
			return ok && calls == 1
		}
		return false
	}
	n := 0
	tabledSeen := map[string]bool{}
	for _, et := range cs.ErrTypes {
		if !inst[et.Named] {
			c.Note("R-FMT-DELEGATE: %s is never instantiated in the module; skipped", et.Name())
			continue
		}
		n++
		pos := et.Named.Obj().Pos()
		if why, ok := fmtDelegateTabled[et.Name()]; ok {
			tabledSeen[et.Name()] = true
			// the Formattable adapter: exactly one call FormatError(<its error field>, state, verb), for every verb and flag
			fn := et.Methods["Format"]
			okAd := false
			if fn != nil && fn.Blocks != nil && len(fn.Params) == 3 {
				var calls []*ssa.Call
				extra := false
				sx.EachInstr(fn, func(in ssa.Instruction) {
					switch x := in.(type) {
					case *ssa.Call:
						calls = append(calls, x)
					case *ssa.Store, *ssa.Go, *ssa.Defer, *ssa.Panic, *ssa.If:
						extra = true
					}
				})
				// FormatError(err, s, verb) is formatErrorInternal(err, s, verb, false): calling the latter directly with a
				// constant false is the same thing
				direct := len(calls) == 1 && sx.Callee(calls[0]) != nil && sx.Callee(calls[0]).Name() == "formatErrorInternal" && p.InModule(sx.Callee(calls[0])) && len(calls[0].Call.Args) == 4
				if direct {
					cst, isC := calls[0].Call.Args[3].(*ssa.Const)
					direct = isC && cst.Value != nil && cst.Value.String() == "false"
				}
				if len(calls) == 1 && !extra && ((isFormatError(sx.Callee(calls[0])) && len(calls[0].Call.Args) == 3) || direct) {
					a := calls[0].Call.Args
					if ld, isLd := a[0].(*ssa.UnOp); isLd {
						if fa, isFA := ld.X.(*ssa.FieldAddr); isFA && fa.X == ssa.Value(fn.Params[0]) && a[1] == ssa.Value(fn.Params[1]) && a[2] == ssa.Value(fn.Params[2]) {
							okAd = true
						}
					}
				}
			}
			c.Check(okAd, et.Name(), pos, "tabled shape ("+why+"): Format = FormatError(<wrapped error>, s, verb) and nothing else",
				"the Formattable adapter does not hand every verb and flag to FormatError (a shortcut calls the wrapped error's own Format or Error): %q, %x, width, precision and unknown verbs no longer print what fmt prints for the Error() string")
			continue
		}
		fn := et.Methods["Format"]
		if fn == nil || fn.Blocks == nil || fn.Synthetic != "" {
			c.Fail(et.Name(), pos, "instantiated library error type has no Format method of its own: fmt falls back to Error() for every verb, so %+v shows no layer entries")
			continue
		}
		var calls []*ssa.Call
		extra := false
		sx.EachInstr(fn, func(in ssa.Instruction) {
			switch x := in.(type) {
			case *ssa.Call:
				calls = append(calls, x)
			case *ssa.Store, *ssa.Go, *ssa.Defer, *ssa.Panic, *ssa.If:
				extra = true
			}
		})
		ok := len(calls) == 1 && !extra && len(fn.Params) == 3 && isFormatError(sx.Callee(calls[0])) && len(calls[0].Call.Args) == 3
		if ok {
			a := calls[0].Call.Args
			recv := stripIface(a[0])
			ok = recv == ssa.Value(fn.Params[0]) && a[1] == ssa.Value(fn.Params[1]) && a[2] == ssa.Value(fn.Params[2])
		}
		if !ok {
			c.Fail(et.Name(), fn.Pos(), "Format does not consist of exactly one call FormatError(receiver, state, verb)")
			continue
		}
		sh := GetShapes(c)[et.Named]
		if sh.Formatter == nil {
			c.Fail(et.Name(), pos, "type delegates Format but implements neither SafeFormatError nor FormatError")
			continue
		}
		c.Ob(et.Name(), fn.Pos(), true, "Format = FormatError(recv, s, verb); detail printer "+sh.Formatter.Name())
	}
	for k := range fmtDelegateTabled {
		if !tabledSeen[k] {
			c.Note("tabled R-FMT-DELEGATE exception %q matches no construct any more (harmless; table can be pruned)", k)
		}
	}
	c.Min("instantiated module error types", n, 22)
}

// ---------------------------------------------------------------------------
// R-SHAPE

var rShape = &Rule{
	Name: "R-SHAPE",
	Doc: "Error() and the detail formatter of each module error type agree on the message shape: Transparent types print nothing outside the p.Detail() region and return the cause; 'prefix: cause' types print exactly their prefix field and return the cause; " +
		"own-text types print exactly their text field and return nil; opaque wrappers switch on the wire message type. This is the code-level reason %v/%s equal Error() at every depth",
	Run: runShape,
}

func runShape(c *core.Ctx) {
	cs := GetCensus(c)
	inst := instantiated(c)
	n := 0
	for _, et := range cs.ErrTypes {
		if !inst[et.Named] || fmtDelegateTabled[et.Name()] != "" {
			continue
		}
		sh := GetShapes(c)[et.Named]
		pos := et.Named.Obj().Pos()
		if sh.Formatter == nil {
			continue // reported by R-FMT-DELEGATE
		}
		n++
		if sh.ErrShape == ShUnknown {
			c.Undecided(et.Name(), pos, sh.ErrWhy)
			continue
		}
		headIs := func(f *types.Var) bool {
			return len(sh.HeadOther) == 0 && len(sh.HeadFields) == 1 && sh.HeadFields[0] == f
		}
		var bad string
		switch sh.ErrShape {
		case ShTransparent:
			switch {
			case len(sh.HeadFields)+len(sh.HeadOther) > 0:
				bad = "Error() is the cause's text alone but the formatter prints a head outside the p.Detail() region: %v/%s would differ from Error()"
			case !sh.RetCause || sh.RetNil || sh.RetOther:
				bad = "Error() is the cause's text but the formatter does not (only) return the cause: the cause's text would be dropped or replaced in %v"
			}
		case ShPrefixCause:
			switch {
			case !headIs(sh.ErrField):
				bad = "Error() is 'prefix: cause' but the formatter's head is not exactly the prefix field"
			case !sh.RetCause || sh.RetNil || sh.RetOther:
				bad = "Error() is 'prefix: cause' but the formatter does not return the cause"
			case sh.ErrSep != ": ":
				bad = fmt.Sprintf("Error() joins prefix and cause with %q, the formatter's single-line output uses \": \"", sh.ErrSep)
			}
		case ShOwn:
			switch {
			case !headIs(sh.ErrField):
				bad = "Error() is the type's own text field but the formatter's head is not exactly that field"
			case !sh.RetNil || sh.RetCause || sh.RetOther:
				bad = "Error() ignores the cause but the formatter does not return nil: the cause's text would be appended in %v"
			}
		case ShByMessageType:
			switch {
			case !headIs(sh.ErrField):
				bad = "formatter head is not exactly the prefix field"
			case !sh.RetNil || !sh.RetCause:
				bad = "formatter must return nil for full messages and the cause for prefixes"
			case sh.ErrSep != ": ":
				bad = fmt.Sprintf("Error() joins prefix and cause with %q", sh.ErrSep)
			}
		case ShViaFormat:
			// Error() is defined by the formatter: nothing to compare.
		case ShConst:
		}
		if bad == "" && sh.RetInDetail {
			bad = "the formatter returns from inside the p.Detail() region: the short (%v) and verbose (%+v) renderings take different decisions about the cause's text"
		}
		if bad == "" && sh.MsgTypeWhy != "" {
			bad = sh.MsgTypeWhy
		}
		if bad != "" {
			c.Fail(et.Name(), sh.Formatter.Pos(), bad, sh.String())
		} else {
			c.Ob(et.Name(), sh.Formatter.Pos(), true, sh.String())
		}
	}
	c.Min("types with Error()/formatter pairs compared", n, 21)
}

// ---------------------------------------------------------------------------
// R-DETAIL-PRINT

var rDetailPrint = &Rule{
	Name: "R-DETAIL-PRINT",
	Doc: "each module wrapper type (and each leaf type for its hidden-error and exported/embedded annotation fields) prints its own annotation inside the p.Detail() region: every field that is neither the cause, nor text already printed in the head or read by Error(), flows into a Print/Printf call there " +
		"(must-include dataflow); types without fields print a constant. Tabled: withContext.redactedTags, withStack.stack",
	Run: runDetailPrint,
}

var detailPrintTabled = map[string]string{
	"contexttags.withContext.redactedTags": "sender-side redaction cache used by SafeDetails(); the tags themselves are printed",
	"withstack.withStack.stack":            "printed by the formatting framework through the StackTraceProvider interface (checked: the type has a StackTrace method)",
}

func runDetailPrint(c *core.Ctx) {
	cs := GetCensus(c)
	inst := instantiated(c)
	n := 0
	seen := map[string]bool{}
	for _, et := range cs.ErrTypes {
		if !inst[et.Named] || fmtDelegateTabled[et.Name()] != "" || et.Struct == nil {
			continue
		}
		sh := GetShapes(c)[et.Named]
		if sh.Formatter == nil {
			continue
		}
		isWrapperOrAnnotated := sh.CauseField != nil || et.Struct.NumFields() > 1
		if !isWrapperOrAnnotated || sh.ErrShape == ShViaFormat {
			continue
		}
		n++
		pos := sh.Formatter.Pos()
		annotationOnly := sh.ErrShape == ShTransparent
		if annotationOnly && sh.DetailPrints == 0 {
			c.Fail(et.Name(), pos, "annotation-only wrapper prints nothing inside the p.Detail() region: its layer is empty in %+v")
			continue
		}
		for i := 0; i < et.Struct.NumFields(); i++ {
			f := et.Struct.Field(i)
			if f == sh.CauseField || f == sh.MultiField || sh.ErrFields[f] {
				continue
			}
			inHead := false
			for _, h := range sh.HeadFields {
				if h == f {
					inHead = true
				}
			}
			if inHead {
				continue
			}
			if sh.CauseField == nil && !sx.IsErrorType(f.Type()) && !f.Exported() && !f.Embedded() {
				continue // internal payload of a leaf type, not a user-facing annotation
			}
			if f.Embedded() && sh.Inherited != nil && sx.NamedOf(f.Type()) != nil && sx.NamedOf(f.Type()).Obj() == sh.Inherited.Obj() {
				continue
			}
			key := et.Name() + "." + f.Name()
			if why, ok := detailPrintTabled[key]; ok {
				seen[key] = true
				if f.Name() == "stack" && et.Methods["StackTrace"] == nil {
					c.Fail(key, pos, "stack field is tabled as printed through StackTraceProvider but the type has no StackTrace method")
					continue
				}
				c.Ob(key, pos, true, "tabled: "+why)
				continue
			}
			c.Check(sh.DetailFields[f], key, pos, "field flows into a Print call inside the p.Detail() region", "annotation field never reaches a Print/Printf inside the p.Detail() region: it is missing from the layer's %+v entry")
			if sx.IsErrorType(f.Type()) && sh.DetailFields[f] && sh.FmtSafe {
				// a hidden error is handed to the printer as a value: the printer renders it with its own safe/unsafe
				// structure. Rendered to a string first, it is one unsafe string - everything in it is redacted
				c.Check(sh.DetailDirect[f], key+" (as a value)", pos, "the hidden error itself is an argument of the detail Print/Printf",
					"the hidden error "+f.Name()+" is rendered to text before it is printed: the safe printer sees a plain string, so in redacted output and in reports the hidden error's safe parts are redacted along with the rest")
			}
		}
		// a layer's own detail is printed whatever lies below it
		c.Check(sh.DetailCauseGuard == "", et.Name()+": detail independent of the cause", pos, "no detail print is guarded by a condition computed from the cause",
			"whether the layer prints its own detail depends on what its cause chain contains ("+sh.DetailCauseGuard+"): for some compositions the layer's entry in %+v is empty although the layer carries the annotation")
		if et.Struct.NumFields() <= 1 || annotationOnly {
			c.Ob(et.Name(), pos, true, fmt.Sprintf("%d Print call(s) inside the p.Detail() region", sh.DetailPrints))
		}
	}
	for k := range detailPrintTabled {
		if !seen[k] {
			c.Note("tabled R-DETAIL-PRINT exception %q matches no construct any more (harmless; table can be pruned)", k)
		}
	}
	c.Min("annotated types inspected", n, 18)
}

var _ = load.ModPath
