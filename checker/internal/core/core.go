// Package core holds the bookkeeping shared by all rules: obligations,
// findings, known-findings matching and evidence output.
package core

import (
	"encoding/json"
	"fmt"
	"go/token"
	"os"
	"path/filepath"
	"sort"
	"strings"
	"time"

	"verif/checker/internal/load"
)

// Kind of a finding.
const (
	Violation = "violation"
	Undecided = "undecided"
	Internal  = "internal" // checker cannot do its job (stale table, count below minimum)
)

// Finding is one reported construct.
type Finding struct {
	Property  string   `json:"property"`
	Rule      string   `json:"rule"`
	Construct string   `json:"construct"`
	What      string   `json:"what"`
	Kind      string   `json:"kind"`
	Pos       string   `json:"pos"`
	Path      []string `json:"path,omitempty"`
	Configs   []string `json:"configs,omitempty"`
	Known     bool     `json:"known,omitempty"`
}

// Key identifies a finding independent of line numbers.
func (f Finding) Key() string {
	return f.Property + "|" + f.Rule + "|" + f.Construct + "|" + f.What
}

// Oblig is one rule instance that was checked.
type Oblig struct {
	Rule      string `json:"rule"`
	Construct string `json:"construct"`
	Pos       string `json:"pos"`
	Detail    string `json:"detail,omitempty"`
	OK        bool   `json:"ok"`
}

// RuleInfo documents a rule in evidence.
type RuleInfo struct {
	Name string `json:"rule"`
	Doc  string `json:"decides"`
}

// Ctx is handed to every rule.
type Ctx struct {
	P     *load.Program
	Prop  string
	Tier  string
	Rule  string // current rule (set by runner)
	Cache map[string]interface{}

	Findings []Finding
	Obligs   []Oblig
	Census   map[string]int
	Notes    []string
}

// NewCtx makes a context for one property on one loaded program.
func NewCtx(p *load.Program, prop, tier string) *Ctx {
	return &Ctx{P: p, Prop: prop, Tier: tier, Census: map[string]int{}, Cache: map[string]interface{}{}}
}

// Ob records one checked obligation.
func (c *Ctx) Ob(construct string, pos token.Pos, ok bool, detail string) {
	c.Obligs = append(c.Obligs, Oblig{Rule: c.Rule, Construct: construct, Pos: c.P.Pos(pos), Detail: detail, OK: ok})
}

// Fail records an obligation that does not hold and the finding for it.
// what must not contain line numbers (it is part of the known-findings key).
func (c *Ctx) Fail(construct string, pos token.Pos, what string, path ...string) {
	c.Ob(construct, pos, false, what)
	c.Findings = append(c.Findings, Finding{Property: c.Prop, Rule: c.Rule, Construct: construct, What: what,
		Kind: Violation, Pos: c.P.Pos(pos), Path: path})
}

// Check records an obligation and a finding when !ok.
func (c *Ctx) Check(ok bool, construct string, pos token.Pos, okDetail, failWhat string, path ...string) bool {
	if ok {
		c.Ob(construct, pos, true, okDetail)
	} else {
		c.Fail(construct, pos, failWhat, path...)
	}
	return ok
}

// Undecided records a construct whose idiom the rule does not recognise.
func (c *Ctx) Undecided(construct string, pos token.Pos, what string, path ...string) {
	c.Ob(construct, pos, false, "UNDECIDED: "+what)
	c.Findings = append(c.Findings, Finding{Property: c.Prop, Rule: c.Rule, Construct: construct, What: what,
		Kind: Undecided, Pos: c.P.Pos(pos), Path: path})
}

// InternalErr records a checker-level failure (stale table, missing anchor).
func (c *Ctx) InternalErr(construct, what string) {
	c.Findings = append(c.Findings, Finding{Property: c.Prop, Rule: c.Rule, Construct: construct, What: what,
		Kind: Internal, Pos: "-"})
}

// Min asserts that a rule saw at least min instances (no vacuous pass).
func (c *Ctx) Min(what string, n, min int) {
	c.Census[c.Rule+": "+what] = n
	// min is the count confirmed by hand on the pinned tree. The floor that fails the check is half of it:
	// de-duplicating refactorings (extract a helper from three copies) legitimately lower the count, while a
	// rule that lost its anchors matches nothing or next to nothing.
	floor := (min + 1) / 2
	if n < floor {
		c.InternalErr(what, fmt.Sprintf("instance count %d below the floor %d (half of the %d instances confirmed by hand; anchor lost: rule would pass vacuously)", n, floor, min))
	}
}

// Note adds a free-text line to evidence.
func (c *Ctx) Note(format string, args ...interface{}) {
	c.Notes = append(c.Notes, fmt.Sprintf(format, args...))
}

// ---------------------------------------------------------------------------
// Known findings

// KnownEntry is one line of /verif/known_findings.json.
type KnownEntry struct {
	Property  string `json:"property"`
	Rule      string `json:"rule"`
	Construct string `json:"construct"`
	What      string `json:"what"`
	Status    string `json:"status"` // "known" or "fixed: <commit>"
	Fails     string `json:"fails"`  // the failing input / history, for humans
}

// LoadKnown reads the known-findings file (never written at run time).
func LoadKnown(path string) ([]KnownEntry, error) {
	b, err := os.ReadFile(path)
	if err != nil {
		if os.IsNotExist(err) {
			return nil, nil
		}
		return nil, err
	}
	var f struct {
		Findings []KnownEntry `json:"findings"`
	}
	if err := json.Unmarshal(b, &f); err != nil {
		return nil, err
	}
	return f.Findings, nil
}

// ---------------------------------------------------------------------------
// Evidence

// Result is the merged outcome of one property run (all configs).
type Result struct {
	Prop     string
	Tier     string
	Seed     int
	Rules    []RuleInfo
	Findings []Finding
	Obligs   []Oblig
	Census   map[string]int
	Notes    []string
	Configs  []string
	Explain  string
	Trusted  []string
	Assume   []string
	Extra    map[string]interface{}
	Start    time.Time
}

// Merge folds one config's context into the result, de-duplicating by key.
func (r *Result) Merge(c *Ctx, cfg string) {
	seenF := map[string]int{}
	for i, f := range r.Findings {
		seenF[f.Key()] = i
	}
	for _, f := range c.Findings {
		if i, ok := seenF[f.Key()]; ok {
			r.Findings[i].Configs = append(r.Findings[i].Configs, cfg)
			continue
		}
		f.Configs = []string{cfg}
		seenF[f.Key()] = len(r.Findings)
		r.Findings = append(r.Findings, f)
	}
	seenO := map[string]bool{}
	for _, o := range r.Obligs {
		seenO[o.Rule+"|"+o.Construct+"|"+o.Detail] = true
	}
	for _, o := range c.Obligs {
		k := o.Rule + "|" + o.Construct + "|" + o.Detail
		if seenO[k] {
			continue
		}
		seenO[k] = true
		r.Obligs = append(r.Obligs, o)
	}
	if r.Census == nil {
		r.Census = map[string]int{}
	}
	for k, v := range c.Census {
		if old, ok := r.Census[k]; !ok || v < old {
			r.Census[k] = v
		}
	}
	for _, n := range c.Notes {
		dup := false
		for _, m := range r.Notes {
			if m == n {
				dup = true
			}
		}
		if !dup {
			r.Notes = append(r.Notes, n)
		}
	}
	r.Configs = append(r.Configs, cfg)
}

// Finish matches findings against the known list, prints the protocol lines,
// writes evidence and replay files and returns the process exit code.
func (r *Result) Finish(verifDir string, known []KnownEntry) int {
	evDir := filepath.Join(verifDir, "evidence")
	os.MkdirAll(evDir, 0o755)
	replayDir := filepath.Join(evDir, r.Prop+".replay")
	os.RemoveAll(replayDir)

	sort.SliceStable(r.Findings, func(i, j int) bool { return r.Findings[i].Key() < r.Findings[j].Key() })
	exit := 0
	nviol := 0
	var knownHit []Finding
	usedKnown := map[int]bool{}
	for i := range r.Findings {
		f := &r.Findings[i]
		if f.Kind == Violation {
			for k, e := range known {
				if e.Status == "known" && e.Property == f.Property && e.Rule == f.Rule && e.Construct == f.Construct && e.What == f.What {
					f.Known = true
					usedKnown[k] = true
				}
			}
		}
		if f.Known {
			knownHit = append(knownHit, *f)
			fmt.Printf("KNOWN-FINDING: property=%s [%s] %s: %s (%s)\n", f.Property, f.Rule, f.Construct, f.What, f.Pos)
			continue
		}
		nviol++
		os.MkdirAll(replayDir, 0o755)
		rp := filepath.Join(replayDir, fmt.Sprintf("%d.json", nviol))
		b, _ := json.MarshalIndent(f, "", " ")
		os.WriteFile(rp, append(b, '\n'), 0o644)
		fmt.Printf("%s: [%s] %s: %s (%s)\n", f.Pos, f.Rule, f.Construct, f.What, f.Kind)
		for _, s := range f.Path {
			fmt.Printf("    %s\n", s)
		}
		// Every unlisted finding fails the check, whatever its kind: an
		// undecided idiom or a lost anchor is an unverifiable property.
		fmt.Printf("VIOLATION property=%s replay=%s\n", f.Property, rp)
		exit = 1
	}
	for k, e := range known {
		if e.Property == r.Prop && e.Status == "known" && !usedKnown[k] {
			fmt.Printf("note: known finding no longer reported: [%s] %s: %s\n", e.Rule, e.Construct, e.What)
		}
	}

	// Evidence.
	held, total := 0, len(r.Obligs)
	distinct := map[string]bool{}
	for _, o := range r.Obligs {
		if o.OK {
			held++
		}
		distinct[o.Rule+"|"+o.Construct] = true
	}
	byRule := map[string][]Oblig{}
	for _, o := range r.Obligs {
		byRule[o.Rule] = append(byRule[o.Rule], o)
	}
	var samples []interface{}
	var rn []string
	for k := range byRule {
		rn = append(rn, k)
	}
	sort.Strings(rn)
	perRule := map[string]int{}
	for _, k := range rn {
		perRule[k] = len(byRule[k])
		n := 4
		if r.Tier == "thorough" {
			n = 12
		}
		for i, o := range byRule[k] {
			if i >= n {
				break
			}
			samples = append(samples, o)
		}
	}
	for _, f := range r.Findings {
		samples = append(samples, f)
	}
	if len(samples) == 0 {
		samples = append(samples, "no obligations (see findings)")
	}
	cov := map[string]interface{}{
		"explanation":          r.Explain,
		"rules":                r.Rules,
		"obligations":          total,
		"discharged":           held,
		"evaluations":          total,
		"distinct_nontrivial":  len(distinct),
		"rule":                 "one evaluation per (rule, construct, clause) instance found in /repo's current source; distinct = distinct (rule, construct) pairs; every instance is a non-trivial obligation (a site the rule's pattern matched and had to decide)",
		"obligations_per_rule": perRule,
		"samples":              samples,
		"census":               r.Census,
		"configs":              r.Configs,
		"trusted_base":         r.Trusted,
		"notes":                r.Notes,
		"known_findings":       knownHit,
		"checker_cmd":          strings.Join(os.Args, " "),
		"exhaustive":           true,
	}
	if r.Tier == "thorough" {
		cov["all_obligations"] = r.Obligs
	}
	if os.Getenv("ERRLINT_VERBOSE") != "" {
		for _, o := range r.Obligs {
			fmt.Printf("  ob %-5v [%s] %s @%s: %s\n", o.OK, o.Rule, o.Construct, o.Pos, o.Detail)
		}
	}
	for k, v := range r.Extra {
		cov[k] = v
	}
	ev := map[string]interface{}{
		"property_id": r.Prop,
		"tier":        r.Tier,
		"seed":        r.Seed,
		"level":       "other",
		"coverage":    cov,
		"assumptions": r.Assume,
		"wall_s":      time.Since(r.Start).Seconds(),
		"violations":  nviol,
	}
	b, _ := json.MarshalIndent(ev, "", " ")
	if err := os.WriteFile(filepath.Join(evDir, r.Prop+".json"), append(b, '\n'), 0o644); err != nil {
		fmt.Printf("CHECKER-ERROR cannot write evidence: %v\n", err)
		if exit == 0 {
			exit = 2
		}
	}
	fmt.Printf("%s %s: %d obligations, %d held, %d unlisted findings, %d known; configs=%v; %.1fs\n",
		r.Prop, r.Tier, total, held, nviol, len(knownHit), r.Configs, time.Since(r.Start).Seconds())
	return exit
}
