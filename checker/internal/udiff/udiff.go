// Package udiff applies a unified diff (as produced by `git diff`) to file
// contents held in memory. It is used to re-create, on the current working
// tree, the stored behaviour-preserving refactorings: hunks are located by
// their context, so a patch still applies when unrelated lines moved.
package udiff

import (
	"fmt"
	"strings"
)

// FilePatch is the set of hunks for one file.
type FilePatch struct {
	Path  string // path relative to the repository root (the b/ side)
	Hunks []Hunk
}

// Hunk holds the old lines (context + removed) and the new lines (context + added).
type Hunk struct {
	OldStart int
	Old, New []string
}

// Parse splits a git diff into per-file patches. New and deleted files are not supported.
func Parse(diff string) ([]FilePatch, error) {
	var out []FilePatch
	var cur *FilePatch
	var h *Hunk
	lines := strings.Split(diff, "\n")
	for i := 0; i < len(lines); i++ {
		l := lines[i]
		switch {
		case strings.HasPrefix(l, "diff --git "):
			out = append(out, FilePatch{})
			cur = &out[len(out)-1]
			h = nil
		case strings.HasPrefix(l, "+++ "):
			if cur == nil {
				return nil, fmt.Errorf("+++ before diff header")
			}
			p := strings.TrimPrefix(l, "+++ ")
			if p == "/dev/null" {
				return nil, fmt.Errorf("deleted files are not supported")
			}
			cur.Path = strings.TrimPrefix(p, "b/")
			h = nil
		case strings.HasPrefix(l, "--- "):
			if strings.TrimPrefix(l, "--- ") == "/dev/null" {
				return nil, fmt.Errorf("new files are not supported")
			}
		case strings.HasPrefix(l, "@@ "):
			if cur == nil {
				return nil, fmt.Errorf("hunk before diff header")
			}
			var os, oc, ns, nc int
			hdr := l[3:]
			if j := strings.Index(hdr, " @@"); j >= 0 {
				hdr = hdr[:j]
			}
			parts := strings.Fields(hdr)
			if len(parts) != 2 {
				return nil, fmt.Errorf("bad hunk header %q", l)
			}
			parseRange(parts[0][1:], &os, &oc)
			parseRange(parts[1][1:], &ns, &nc)
			cur.Hunks = append(cur.Hunks, Hunk{OldStart: os})
			h = &cur.Hunks[len(cur.Hunks)-1]
		default:
			if h == nil || l == "" && i == len(lines)-1 {
				continue
			}
			if strings.HasPrefix(l, "\\") { // "\ No newline at end of file"
				continue
			}
			tag, body := byte(' '), ""
			if len(l) > 0 {
				tag, body = l[0], l[1:]
			}
			switch tag {
			case ' ':
				h.Old = append(h.Old, body)
				h.New = append(h.New, body)
			case '-':
				h.Old = append(h.Old, body)
			case '+':
				h.New = append(h.New, body)
			default:
				h = nil // index/mode lines between files
			}
		}
	}
	var res []FilePatch
	for _, fp := range out {
		if fp.Path != "" && len(fp.Hunks) > 0 {
			res = append(res, fp)
		}
	}
	if len(res) == 0 {
		return nil, fmt.Errorf("no hunks")
	}
	return res, nil
}

func parseRange(s string, start, count *int) {
	*count = 1
	if i := strings.IndexByte(s, ','); i >= 0 {
		fmt.Sscanf(s[i+1:], "%d", count)
		s = s[:i]
	}
	fmt.Sscanf(s, "%d", start)
}

// Apply applies the hunks to src. Each hunk's old lines must occur exactly once
// at or after the end of the previous hunk (searched nearest to the recorded
// position first); otherwise an error is returned.
func Apply(src string, fp FilePatch) (string, error) {
	lines := strings.Split(src, "\n")
	var out []string
	pos := 0
	for hi, h := range fp.Hunks {
		at := -1
		want := h.OldStart - 1
		best := -1
		for i := pos; i+len(h.Old) <= len(lines); i++ {
			if match(lines[i:i+len(h.Old)], h.Old) {
				if best < 0 || abs(i-want) < abs(best-want) {
					best = i
				}
			}
		}
		at = best
		if at < 0 {
			return "", fmt.Errorf("hunk %d of %s does not apply (context not found)", hi+1, fp.Path)
		}
		out = append(out, lines[pos:at]...)
		out = append(out, h.New...)
		pos = at + len(h.Old)
	}
	out = append(out, lines[pos:]...)
	return strings.Join(out, "\n"), nil
}

func match(a, b []string) bool {
	for i := range a {
		if a[i] != b[i] {
			return false
		}
	}
	return true
}

func abs(x int) int {
	if x < 0 {
		return -x
	}
	return x
}
