// Package sx has small helpers over go/ssa and go/types.
package sx

import (
	"go/constant"
	"go/token"
	"go/types"
	"strings"

	"golang.org/x/tools/go/ssa"
)

// Callee returns the statically known callee of a call (function, method
// with concrete receiver, or closure literal), or nil.
func Callee(c ssa.CallInstruction) *ssa.Function {
	cc := c.Common()
	if cc.IsInvoke() {
		return nil
	}
	return FuncOf(cc.Value)
}

// FuncOf resolves a value to the function it denotes, through closures
// and func-type conversions.
func FuncOf(v ssa.Value) *ssa.Function {
	for {
		switch x := v.(type) {
		case *ssa.Function:
			return x
		case *ssa.MakeClosure:
			return x.Fn.(*ssa.Function)
		case *ssa.ChangeType:
			v = x.X
		default:
			return nil
		}
	}
}

// Is reports whether fn is the package-level function or method with the
// given package path and name. For methods name is "(T).M" or "(*T).M".
func Is(fn *ssa.Function, pkgPath, name string) bool {
	if fn == nil {
		return false
	}
	if o := fn.Origin(); o != nil {
		fn = o
	}
	obj := fn.Object()
	if obj == nil || obj.Pkg() == nil || obj.Pkg().Path() != pkgPath {
		return false
	}
	if recv := fn.Signature.Recv(); recv != nil {
		t := recv.Type()
		ptr := false
		if p, ok := t.(*types.Pointer); ok {
			t, ptr = p.Elem(), true
		}
		n, ok := types.Unalias(t).(*types.Named)
		if !ok {
			return false
		}
		want := "(" + n.Obj().Name() + ")." + obj.Name()
		if ptr {
			want = "(*" + n.Obj().Name() + ")." + obj.Name()
		}
		return want == name
	}
	return obj.Name() == name
}

// IsAny reports whether fn is one of names in pkgPath.
func IsAny(fn *ssa.Function, pkgPath string, names ...string) bool {
	for _, n := range names {
		if Is(fn, pkgPath, n) {
			return true
		}
	}
	return false
}

// InvokeName returns the method name for an interface-method call, else "".
func InvokeName(c ssa.CallInstruction) string {
	cc := c.Common()
	if cc.IsInvoke() {
		return cc.Method.Name()
	}
	return ""
}

// CalleeName: printable static callee or invoke method.
func CalleeName(c ssa.CallInstruction) string {
	if f := Callee(c); f != nil {
		return f.String()
	}
	cc := c.Common()
	if cc.IsInvoke() {
		return "invoke " + cc.Value.Type().String() + "." + cc.Method.Name()
	}
	if b, ok := cc.Value.(*ssa.Builtin); ok {
		return "builtin " + b.Name()
	}
	return "dynamic " + cc.Value.Name()
}

// IsNil reports whether v is a nil constant.
func IsNil(v ssa.Value) bool {
	c, ok := v.(*ssa.Const)
	return ok && c.Value == nil && !isBasicZero(c)
}

func isBasicZero(c *ssa.Const) bool {
	// a nil-valued Const of basic/struct type is a zero value, not nil
	switch types.Unalias(c.Type()).Underlying().(type) {
	case *types.Basic:
		b := c.Type().Underlying().(*types.Basic)
		return b.Kind() != types.UntypedNil && b.Kind() != types.UnsafePointer
	case *types.Struct, *types.Array:
		return true
	}
	return false
}

// ConstString returns the string value of a string constant.
func ConstString(v ssa.Value) (string, bool) {
	for {
		switch x := v.(type) {
		case *ssa.Const:
			if x.Value != nil && x.Value.Kind() == constant.String {
				return constant.StringVal(x.Value), true
			}
			return "", false
		case *ssa.ChangeType:
			v = x.X
		case *ssa.Convert:
			v = x.X
		default:
			return "", false
		}
	}
}

// ConstInt returns the value of an integer constant.
func ConstInt(v ssa.Value) (int64, bool) {
	c, ok := v.(*ssa.Const)
	if !ok || c.Value == nil || c.Value.Kind() != constant.Int {
		return 0, false
	}
	return c.Int64(), true
}

// Deref returns the pointee type of a pointer type, or t.
func Deref(t types.Type) types.Type {
	if p, ok := types.Unalias(t).Underlying().(*types.Pointer); ok {
		return p.Elem()
	}
	return t
}

// NamedOf returns the named type behind t (through pointers and aliases).
func NamedOf(t types.Type) *types.Named {
	t = types.Unalias(t)
	if p, ok := t.(*types.Pointer); ok {
		t = types.Unalias(p.Elem())
	}
	n, _ := t.(*types.Named)
	return n
}

// IsNamed reports whether t (through pointer/alias) is pkgPath.name.
func IsNamed(t types.Type, pkgPath, name string) bool {
	n := NamedOf(t)
	if n == nil || n.Obj().Name() != name {
		return false
	}
	if n.Obj().Pkg() == nil {
		return pkgPath == ""
	}
	return n.Obj().Pkg().Path() == pkgPath
}

// IsInterface reports whether t's underlying type is an interface.
func IsInterface(t types.Type) bool {
	_, ok := types.Unalias(t).Underlying().(*types.Interface)
	return ok
}

// ErrorType is the universe error type.
var ErrorType = types.Universe.Lookup("error").Type()

// IsErrorType reports whether t is exactly the error interface.
func IsErrorType(t types.Type) bool { return types.Identical(types.Unalias(t), ErrorType) }

// ImplementsError reports whether t or *t implements error.
func ImplementsError(t types.Type) bool {
	ei := ErrorType.Underlying().(*types.Interface)
	if types.Implements(t, ei) {
		return true
	}
	if _, ok := t.Underlying().(*types.Interface); ok {
		return false
	}
	if _, ok := t.(*types.Pointer); !ok {
		return types.Implements(types.NewPointer(t), ei)
	}
	return false
}

// FieldOf returns the struct field object selected by a FieldAddr/Field.
func FieldOf(v ssa.Value) *types.Var {
	switch x := v.(type) {
	case *ssa.FieldAddr:
		st := Deref(x.X.Type()).Underlying().(*types.Struct)
		return st.Field(x.Field)
	case *ssa.Field:
		st := x.X.Type().Underlying().(*types.Struct)
		return st.Field(x.Field)
	}
	return nil
}

// FieldName renders "T.f" for a field of named struct T.
func FieldName(owner types.Type, f *types.Var) string {
	n := NamedOf(owner)
	if n == nil {
		return "?." + f.Name()
	}
	return n.Obj().Name() + "." + f.Name()
}

// EachInstr visits every instruction of fn (not of its closures).
func EachInstr(fn *ssa.Function, f func(ssa.Instruction)) {
	for _, b := range fn.Blocks {
		for _, in := range b.Instrs {
			f(in)
		}
	}
}

// EachInstrDeep visits fn and all closures declared inside it.
func EachInstrDeep(fn *ssa.Function, f func(*ssa.Function, ssa.Instruction)) {
	for _, b := range fn.Blocks {
		for _, in := range b.Instrs {
			f(fn, in)
		}
	}
	for _, a := range fn.AnonFuncs {
		EachInstrDeep(a, f)
	}
}

// Returns lists the Return instructions of fn.
func Returns(fn *ssa.Function) []*ssa.Return {
	var out []*ssa.Return
	for _, b := range fn.Blocks {
		if len(b.Instrs) == 0 {
			continue
		}
		if r, ok := b.Instrs[len(b.Instrs)-1].(*ssa.Return); ok {
			out = append(out, r)
		}
	}
	return out
}

// PosOf gives the best source position for an instruction or value.
func PosOf(x interface{ Pos() token.Pos }, fn *ssa.Function) token.Pos {
	if p := x.Pos(); p.IsValid() {
		return p
	}
	if fn != nil {
		return fn.Pos()
	}
	return token.NoPos
}

// InstrPos finds a position for an instruction, falling back to operands
// and then to the function.
func InstrPos(in ssa.Instruction) token.Pos {
	if p := in.Pos(); p.IsValid() {
		return p
	}
	var ops []*ssa.Value
	for _, op := range in.Operands(ops) {
		if *op != nil {
			if p := (*op).Pos(); p.IsValid() {
				return p
			}
		}
	}
	if in.Parent() != nil {
		return in.Parent().Pos()
	}
	return token.NoPos
}

// Exported reports whether fn is an exported package-level function or an
// exported method of an exported type.
func Exported(fn *ssa.Function) bool {
	obj := fn.Object()
	if obj == nil || !obj.Exported() {
		return false
	}
	if recv := fn.Signature.Recv(); recv != nil {
		n := NamedOf(recv.Type())
		return n != nil && n.Obj().Exported()
	}
	return true
}

// TrimMod shortens a module-qualified name.
func TrimMod(s string) string {
	s = strings.ReplaceAll(s, "github.com/cockroachdb/errors/", "")
	s = strings.ReplaceAll(s, "github.com/cockroachdb/errors.", "errors.")
	return s
}

// Unspill sees through a local variable that go/ssa spilled to memory
// because a closure captures it: a load of an Alloc with exactly one store
// yields the stored value. Other values are returned unchanged.
func Unspill(v ssa.Value) ssa.Value {
	for i := 0; i < 4; i++ {
		ld, ok := v.(*ssa.UnOp)
		if !ok || ld.Op != token.MUL {
			return v
		}
		al, ok := ld.X.(*ssa.Alloc)
		if !ok {
			return v
		}
		var stored ssa.Value
		n := 0
		for _, r := range *al.Referrers() {
			if st, ok := r.(*ssa.Store); ok && st.Addr == al {
				stored = st.Val
				n++
			}
		}
		if n != 1 {
			return v
		}
		v = stored
	}
	return v
}
