// errlint decides structural necessary conditions of the properties in
// /verif/properties.jsonl from /repo's current source. It never runs
// library code.
package main

import (
	"encoding/json"
	"flag"
	"fmt"
	"os"
	"os/exec"
	"path/filepath"
	"regexp"
	"runtime/debug"
	"runtime/pprof"
	"sort"
	"strconv"
	"strings"
	"time"

	"verif/checker/internal/core"
	"verif/checker/internal/load"
	"verif/checker/internal/rules"
	"verif/checker/internal/udiff"
)

func main() {
	prop := flag.String("prop", "", "property id (C01..C20)")
	tier := flag.String("tier", os.Getenv("VERIF_TIER"), "quick|thorough")
	repo := flag.String("repo", envOr("VERIF_REPO", "/repo"), "repository to analyse")
	verif := flag.String("verif", envOr("VERIF_DIR", "/verif"), "verif directory (evidence, known findings)")
	dump := flag.String("dump", "", "debug: census")
	cpuprof := flag.String("cpuprofile", "", "write a CPU profile")
	flag.Parse()
	if *cpuprof != "" {
		f, _ := os.Create(*cpuprof)
		pprof.StartCPUProfile(f)
		defer pprof.StopCPUProfile()
		go func() { time.Sleep(60 * time.Second); pprof.StopCPUProfile(); os.Exit(3) }()
	}
	if *tier == "" {
		*tier = "quick"
	}
	seed, _ := strconv.Atoi(os.Getenv("VERIF_SEED"))
	start := time.Now()

	if *dump == "props" {
		rules.DumpProps()
		return
	}
	if *dump != "" {
		p, err := load.Load(*repo, load.Config{}, nil)
		if err != nil {
			fmt.Println("CHECKER-ERROR", err)
			os.Exit(2)
		}
		rules.Dump(core.NewCtx(p, "dump", "quick"), *dump)
		return
	}

	if *prop == "ALL" {
		// evaluation helper (not used by MANIFEST commands): one load, every property's quick check, shared
		// analysis caches; prints one summary line per property and the usual VIOLATION lines
		os.Exit(runAll(*repo, *verif))
	}
	pr := rules.Get(*prop)
	if pr == nil {
		fmt.Printf("CHECKER-ERROR unknown or unclaimed property %q (claimed: %s)\n", *prop, strings.Join(rules.IDs(), " "))
		os.Exit(2)
	}
	known, err := core.LoadKnown(filepath.Join(*verif, "known_findings.json"))
	if err != nil {
		fmt.Println("CHECKER-ERROR known_findings.json:", err)
		os.Exit(2)
	}
	cfgs := []load.Config{{}}
	if *tier == "thorough" {
		cfgs = []load.Config{{}, {GOOS: "linux", GOARCH: "386"}, {GOOS: "darwin", GOARCH: "arm64"}, {GOOS: "windows", GOARCH: "amd64"}}
	}
	worker := os.Getenv("ERRLINT_REFAC_SHARD") != ""
	if worker {
		cfgs = []load.Config{{}} // the variants are analysed in the host configuration: so is their baseline
	}
	if only := os.Getenv("ERRLINT_ONLY_CONFIG"); only != "" {
		// debugging aid: analyse one build configuration only (GOOS/GOARCH)
		cfgs = nil
		for _, one := range strings.Split(only, ",") {
			if parts := strings.Split(one, "/"); len(parts) == 2 {
				cfgs = append(cfgs, load.Config{GOOS: parts[0], GOARCH: parts[1]})
			} else {
				cfgs = append(cfgs, load.Config{})
			}
		}
	}
	res := &core.Result{Prop: *prop, Tier: *tier, Seed: seed, Start: start, Explain: pr.Explain, Trusted: pr.Trusted,
		Assume: []string{
			"go/types and go/ssa (x/tools v0.29.0) model the program faithfully; reflection is used by the module only for type names and comparability",
			"third-party implementations of the library's interfaces honour their documented contracts",
			"necessary conditions only: a pass means no structural cause of violation exists on any analysed path, not that the behaviour was executed",
		}}
	for _, r := range pr.Rules {
		res.Rules = append(res.Rules, core.RuleInfo{Name: r.Name, Doc: r.Doc})
	}
	for _, cfg := range cfgs {
		p, err := load.Load(*repo, cfg, nil)
		if err != nil {
			fmt.Printf("CHECKER-ERROR %v\n", err)
			fmt.Printf("VIOLATION property=%s replay=%s\n", *prop, "none (the tree does not load/type-check in config "+cfg.String()+")")
			os.Exit(1)
		}
		c := core.NewCtx(p, *prop, *tier)
		for _, r := range pr.Rules {
			rules.RunRule(c, r)
		}
		c.Census["module packages"] = len(p.Mod)
		c.Census["module functions (hand-written, with body)"] = len(p.HandFuncs())
		res.Merge(c, cfg.String())
	}
	selfFail := false
	if worker {
		runRefactorings(*repo, *verif, *prop, pr, res)
		os.Exit(0)
	}
	if *tier == "thorough" {
		selfFail = runControls(*repo, *verif, *prop, pr, res)
		if runRefactorings(*repo, *verif, *prop, pr, res) {
			selfFail = true
		}
	}
	code := res.Finish(*verif, known)
	if selfFail && code == 0 {
		fmt.Println("SELFTEST-FAIL: a control mutant was not detected by its rule, or a behaviour-preserving variant raised an alarm (checker defect, not a property violation)")
		code = 3
	}
	pprof.StopCPUProfile()
	os.Exit(code)
}

// runAll runs the quick check of every claimed property on one loaded program.
func runAll(repo, verif string) int {
	known, err := core.LoadKnown(filepath.Join(verif, "known_findings.json"))
	if err != nil {
		fmt.Println("CHECKER-ERROR known_findings.json:", err)
		return 2
	}
	p, err := load.Load(repo, load.Config{}, nil)
	if err != nil {
		fmt.Printf("CHECKER-ERROR %v\n", err)
		for _, id := range rules.IDs() {
			fmt.Printf("VIOLATION property=%s replay=none (the tree does not load/type-check)\n", id)
		}
		return 1
	}
	cache := map[string]interface{}{}
	code := 0
	for _, id := range rules.IDs() {
		pr := rules.Get(id)
		start := time.Now()
		res := &core.Result{Prop: id, Tier: "quick", Start: start, Explain: pr.Explain, Trusted: pr.Trusted}
		for _, r := range pr.Rules {
			res.Rules = append(res.Rules, core.RuleInfo{Name: r.Name, Doc: r.Doc})
		}
		c := core.NewCtx(p, id, "quick")
		c.Cache = cache
		for _, r := range pr.Rules {
			rules.RunRule(c, r)
		}
		res.Merge(c, "host")
		if rc := res.Finish(verif, known); rc != 0 {
			code = 1
		}
	}
	return code
}

func envOr(k, d string) string {
	if v := os.Getenv(k); v != "" {
		return v
	}
	return d
}

// runControls applies each control mutant of the property in memory and
// requires its rule to report it. Returns true if an applicable control
// went undetected.
func runControls(repo, verif, prop string, pr *rules.Prop, res *core.Result) bool {
	type outcome struct {
		Name, File, Rule, Result string
	}
	var outs []outcome
	fail := false
	// pre-pass: the overlays of the controls that apply, loaded ahead of use
	ctlOverlay := map[int]int{}
	var overlays []map[string][]byte
	for ci, ct := range rules.Controls {
		if ct.Prop != prop || ct.Rule == "" {
			continue
		}
		abs := filepath.Join(repo, ct.File)
		ov, err := baseOverlay(repo, verif, rules.ControlBases[ct.Name])
		if err != nil {
			continue
		}
		src, ok := ov[abs]
		if !ok {
			if src, err = os.ReadFile(abs); err != nil {
				continue
			}
		}
		re, err := regexp.Compile("(?s)" + ct.Old)
		if err != nil || len(re.FindAllIndex(src, -1)) != 1 {
			continue
		}
		ov[abs] = re.ReplaceAll(src, []byte(ct.New))
		ctlOverlay[ci] = len(overlays)
		overlays = append(overlays, ov)
	}
	pf := newPrefetcher(repo, overlays, 3)
	for ci, ct := range rules.Controls {
		if ct.Prop != prop {
			continue
		}
		o := outcome{Name: ct.Name, File: ct.File, Rule: ct.Rule}
		abs := filepath.Join(repo, ct.File)
		ov, err := baseOverlay(repo, verif, rules.ControlBases[ct.Name])
		if err != nil {
			o.Result = "skipped: base refactoring " + rules.ControlBases[ct.Name] + " does not apply (" + firstLine(err.Error()) + ")"
			outs = append(outs, o)
			continue
		}
		src, ok := ov[abs]
		if !ok {
			src, err = os.ReadFile(abs)
		}
		if err != nil {
			o.Result = "skipped: file not found"
			outs = append(outs, o)
			continue
		}
		re, err := regexp.Compile("(?s)" + ct.Old)
		if err != nil || ct.Rule == "" {
			o.Result = "skipped: disabled"
			outs = append(outs, o)
			continue
		}
		if n := len(re.FindAllIndex(src, -1)); n != 1 {
			o.Result = fmt.Sprintf("skipped: anchor text matches %d times", n)
			outs = append(outs, o)
			continue
		}
		p, err := pf.get(ctlOverlay[ci])
		if err != nil {
			pf.done()
			o.Result = "skipped: mutant does not type-check (" + firstLine(err.Error()) + ")"
			outs = append(outs, o)
			continue
		}
		c := core.NewCtx(p, prop, "thorough")
		for _, r := range pr.Rules {
			rules.RunRule(c, r)
		}
		p = nil
		pf.done()
		if ct.Rule == rules.CleanVariant {
			// behaviour-preserving variant: no finding may appear that the unmodified tree does not have
			base := map[string]bool{}
			for _, f := range res.Findings {
				base[f.Key()] = true
			}
			var extra []string
			for _, f := range c.Findings {
				if !base[f.Key()] {
					extra = append(extra, "["+f.Rule+"] "+f.Construct+": "+f.What)
				}
			}
			if len(extra) == 0 {
				o.Result = "clean (as required)"
			} else {
				o.Result = "FALSE ALARM: " + firstLine(extra[0])
				fail = true
				fmt.Printf("SELFTEST-FAIL behaviour-preserving variant %q (%s) raised %d finding(s), first: %s\n", ct.Name, ct.File, len(extra), firstLine(extra[0]))
			}
			outs = append(outs, o)
			continue
		}
		hit := false
		for _, f := range c.Findings {
			if f.Rule == ct.Rule {
				hit = true
			}
		}
		if hit {
			o.Result = "detected"
		} else {
			o.Result = "NOT DETECTED"
			fail = true
			fmt.Printf("SELFTEST-FAIL control %q (%s) was not reported by %s\n", ct.Name, ct.File, ct.Rule)
		}
		outs = append(outs, o)
	}
	if res.Extra == nil {
		res.Extra = map[string]interface{}{}
	}
	res.Extra["control_mutants"] = outs
	n, d, nc, dc, sk := 0, 0, 0, 0, 0
	for _, o := range outs {
		switch {
		case strings.HasPrefix(o.Result, "skipped"):
			sk++
		case o.Rule == rules.CleanVariant:
			nc++
			if strings.HasPrefix(o.Result, "clean") {
				dc++
			}
		default:
			n++
			if o.Result == "detected" {
				d++
			}
		}
	}
	res.Extra["control_mutants_applied"] = n
	res.Extra["control_mutants_detected"] = d
	res.Extra["clean_variants_applied"] = nc
	res.Extra["clean_variants_silent"] = dc
	fmt.Printf("%s controls: %d applied, %d detected, %d skipped; behaviour-preserving variants: %d applied, %d silent\n", prop, n, d, sk, nc, dc)
	return fail
}

// runRefactorings re-creates, in memory, every stored behaviour-preserving refactoring
// (/verif/refactorings/<id>/patch.diff, made by independent agents, each confirmed to build and to keep the
// pinned test suite green) that touches one of the property's anchor files, on top of the CURRENT content of
// /repo, and requires the property's rules to report nothing new. Returns true on a false alarm.
// baseOverlay: the files of the stored refactoring id, patched on top of the current tree (empty map for "").
func baseOverlay(repo, verif, id string) (map[string][]byte, error) {
	ov := map[string][]byte{}
	if id == "" {
		return ov, nil
	}
	pth := filepath.Join(verif, "refactorings", id, "patch.diff")
	if _, err := os.Stat(filepath.Join(verif, "refactorings", id, "patch_head.diff")); err == nil {
		pth = filepath.Join(verif, "refactorings", id, "patch_head.diff")
	}
	data, err := os.ReadFile(pth)
	if err != nil {
		return nil, err
	}
	fps, err := udiff.Parse(string(data))
	if err != nil {
		return nil, err
	}
	for _, fp := range fps {
		abs := filepath.Join(repo, fp.Path)
		src, err := os.ReadFile(abs)
		if err != nil {
			return nil, err
		}
		patched, err := udiff.Apply(string(src), fp)
		if err != nil {
			return nil, err
		}
		ov[abs] = []byte(patched)
	}
	return ov, nil
}

func runRefactorings(repo, verif, prop string, pr *rules.Prop, res *core.Result) bool {
	type outcome struct {
		ID, Result string
		Files      []string
		N          int `json:",omitempty"`
	}
	anchors := map[string]bool{}
	if data, err := os.ReadFile(filepath.Join(verif, "properties.jsonl")); err == nil {
		for _, line := range strings.Split(string(data), "\n") {
			var d struct {
				ID      string `json:"id"`
				Anchors struct {
					Files []string `json:"files"`
				} `json:"anchors"`
			}
			if json.Unmarshal([]byte(line), &d) == nil && d.ID == prop {
				for _, f := range d.Anchors.Files {
					anchors[f] = true
				}
			}
		}
	}
	dirs, _ := filepath.Glob(filepath.Join(verif, "refactorings", "*", "patch.diff"))
	sort.Strings(dirs)
	var outs []outcome
	fail := false
	base := map[string]bool{}
	for _, f := range res.Findings {
		base[f.Key()] = true
	}
	n, silent := 0, 0
	// pre-pass: parse every patch, keep those that touch an anchor file and apply to the current tree
	type job struct {
		id      string
		files   []string
		overlay int // index into overlays, -1: skipped
		skip    string
	}
	var jobs []job
	var overlays []map[string][]byte
	for _, pth := range dirs {
		id := filepath.Base(filepath.Dir(pth))
		// a refactoring whose patch no longer applies to the current tree (a later fix: commit rewrote the same lines)
		// carries a hand-rebased patch_head.diff
		if _, err := os.Stat(filepath.Join(filepath.Dir(pth), "patch_head.diff")); err == nil {
			pth = filepath.Join(filepath.Dir(pth), "patch_head.diff")
		}
		data, err := os.ReadFile(pth)
		if err != nil {
			continue
		}
		fps, err := udiff.Parse(string(data))
		if err != nil {
			jobs = append(jobs, job{id: id, overlay: -1, skip: err.Error()})
			continue
		}
		relevant := false
		var files []string
		for _, fp := range fps {
			files = append(files, fp.Path)
			if anchors[fp.Path] {
				relevant = true
			}
		}
		if !relevant {
			continue
		}
		overlay := map[string][]byte{}
		skip := ""
		for _, fp := range fps {
			abs := filepath.Join(repo, fp.Path)
			src, err := os.ReadFile(abs)
			if err != nil {
				skip = "file not found: " + fp.Path
				break
			}
			patched, err := udiff.Apply(string(src), fp)
			if err != nil {
				skip = err.Error()
				break
			}
			overlay[abs] = []byte(patched)
		}
		if skip != "" {
			jobs = append(jobs, job{id: id, files: files, overlay: -1, skip: skip})
			continue
		}
		jobs = append(jobs, job{id: id, files: files, overlay: len(overlays)})
		overlays = append(overlays, overlay)
	}
	// evaluate one runnable job on its loaded program
	evalJob := func(j job, p *load.Program) outcome {
		c := core.NewCtx(p, prop, "thorough")
		for _, r := range pr.Rules {
			rules.RunRule(c, r)
		}
		var extra []string
		for _, f := range c.Findings {
			if !base[f.Key()] {
				extra = append(extra, "["+f.Rule+"] "+f.Construct+": "+f.What)
			}
		}
		if len(extra) == 0 {
			return outcome{ID: j.id, Files: j.files, Result: "silent (as required)"}
		}
		return outcome{ID: j.id, Files: j.files, Result: "FALSE ALARM: " + firstLine(extra[0]), N: len(extra)}
	}
	var runnable []job
	for _, j := range jobs {
		if j.overlay >= 0 {
			runnable = append(runnable, j)
		}
	}
	// worker mode: this process evaluates one shard of the runnable jobs and prints the outcomes
	if sh := os.Getenv("ERRLINT_REFAC_SHARD"); sh != "" {
		var si, sk int
		fmt.Sscanf(sh, "%d/%d", &si, &sk)
		var mine []job
		var mineOv []map[string][]byte
		for k, j := range runnable {
			if sk > 0 && k%sk == si {
				mine = append(mine, j)
				mineOv = append(mineOv, overlays[j.overlay])
			}
		}
		pf := newPrefetcher(repo, mineOv, 3)
		for k, j := range mine {
			p, err := pf.get(k)
			var o outcome
			if err != nil {
				o = outcome{ID: j.id, Files: j.files, Result: "skipped: does not type-check on the current tree (" + firstLine(err.Error()) + ")"}
			} else {
				o = evalJob(j, p)
			}
			p = nil
			pf.done()
			b, _ := json.Marshal(o)
			fmt.Printf("REFAC-OUTCOME %s\n", b)
		}
		return false
	}
	// the variants are independent: with many of them, shards are evaluated by worker processes (the rules keep
	// per-run state, so they are not run concurrently inside one process)
	got := map[string]outcome{}
	if len(runnable) >= 12 && os.Getenv("ERRLINT_NO_SHARD") == "" {
		k := (len(runnable) + 9) / 10
		if k > 6 {
			k = 6
		}
		type shardRes struct{ out []byte }
		results := make([]chan shardRes, k)
		for i := 0; i < k; i++ {
			results[i] = make(chan shardRes, 1)
			go func(i int) {
				cmd := exec.Command(os.Args[0], "-repo", repo, "-verif", verif, "-prop", prop, "-tier", "thorough")
				cmd.Env = append(os.Environ(), fmt.Sprintf("ERRLINT_REFAC_SHARD=%d/%d", i, k))
				out, _ := cmd.Output()
				results[i] <- shardRes{out}
			}(i)
		}
		for i := 0; i < k; i++ {
			r := <-results[i]
			for _, line := range strings.Split(string(r.out), "\n") {
				if !strings.HasPrefix(line, "REFAC-OUTCOME ") {
					continue
				}
				var o outcome
				if json.Unmarshal([]byte(strings.TrimPrefix(line, "REFAC-OUTCOME ")), &o) == nil && o.ID != "" {
					got[o.ID] = o
				}
			}
		}
	}
	for _, j := range jobs {
		if j.overlay < 0 {
			outs = append(outs, outcome{ID: j.id, Files: j.files, Result: "skipped: " + j.skip})
			continue
		}
		o, ok := got[j.id]
		if !ok {
			// not sharded, or the worker did not deliver: evaluate here
			p, err := load.Load(repo, load.Config{}, overlays[j.overlay])
			if err != nil {
				outs = append(outs, outcome{ID: j.id, Files: j.files, Result: "skipped: does not type-check on the current tree (" + firstLine(err.Error()) + ")"})
				continue
			}
			o = evalJob(j, p)
			p = nil
			debug.FreeOSMemory()
		}
		if strings.HasPrefix(o.Result, "skipped") {
			outs = append(outs, o)
			continue
		}
		n++
		if strings.HasPrefix(o.Result, "silent") {
			silent++
		} else {
			fail = true
			fmt.Printf("SELFTEST-FAIL behaviour-preserving refactoring %s raised %d finding(s), first: %s\n", o.ID, o.N, strings.TrimPrefix(o.Result, "FALSE ALARM: "))
		}
		outs = append(outs, o)
	}
	if res.Extra == nil {
		res.Extra = map[string]interface{}{}
	}
	res.Extra["refactoring_variants"] = outs
	res.Extra["refactoring_variants_applied"] = n
	res.Extra["refactoring_variants_silent"] = silent
	fmt.Printf("%s refactorings: %d applied, %d silent, %d skipped\n", prop, n, silent, len(outs)-n)
	return fail
}

// prefetcher loads overlay variants of the repository ahead of their use, a bounded number at a time: loading
// (parse + type-check + SSA) is the expensive, thread-safe part; the rules then run sequentially on each program.
type prefetcher struct {
	res     []chan loadRes
	tickets chan struct{}
}

type loadRes struct {
	p   *load.Program
	err error
}

func newPrefetcher(repo string, overlays []map[string][]byte, window int) *prefetcher {
	pf := &prefetcher{tickets: make(chan struct{}, window)}
	for i := 0; i < window; i++ {
		pf.tickets <- struct{}{}
	}
	for range overlays {
		pf.res = append(pf.res, make(chan loadRes, 1))
	}
	go func() {
		for i, ov := range overlays {
			<-pf.tickets
			go func(i int, ov map[string][]byte) {
				p, err := load.Load(repo, load.Config{}, ov)
				pf.res[i] <- loadRes{p, err}
			}(i, ov)
		}
	}()
	return pf
}

// get returns variant i; done must be called when its program is no longer needed.
func (pf *prefetcher) get(i int) (*load.Program, error) {
	r := <-pf.res[i]
	return r.p, r.err
}

func (pf *prefetcher) done() {
	debug.FreeOSMemory()
	pf.tickets <- struct{}{}
}

func firstLine(s string) string {
	if i := strings.Index(s, "\n"); i >= 0 {
		s = s[:i]
	}
	if len(s) > 160 {
		s = s[:160]
	}
	return s
}
