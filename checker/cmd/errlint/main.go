// errlint decides structural necessary conditions of the properties in
// /verif/properties.jsonl from /repo's current source. It never runs
// library code.
package main

import (
	"flag"
	"fmt"
	"os"
	"path/filepath"
	"runtime/pprof"
	"strconv"
	"strings"
	"time"

	"verif/checker/internal/core"
	"verif/checker/internal/load"
	"verif/checker/internal/rules"
)

func main() {
	prop := flag.String("prop", "", "property id (C01..C20)")
	tier := flag.String("tier", os.Getenv("VERIF_TIER"), "quick|thorough")
	repo := flag.String("repo", envOr("VERIF_REPO", "/repo"), "repository to analyse")
	verif := flag.String("verif", envOr("VERIF_DIR", "/verif"), "verif directory (evidence, known findings)")
	dump := flag.String("dump", "", "debug: census")
	cpuprof := flag.String("cpuprofile", "", "write a CPU profile")
	flag.Parse()
	if *cpuprof != "" {
		f, _ := os.Create(*cpuprof)
		pprof.StartCPUProfile(f)
		defer pprof.StopCPUProfile()
		go func() { time.Sleep(60 * time.Second); pprof.StopCPUProfile(); os.Exit(3) }()
	}
	if *tier == "" {
		*tier = "quick"
	}
	seed, _ := strconv.Atoi(os.Getenv("VERIF_SEED"))
	start := time.Now()

	if *dump != "" {
		p, err := load.Load(*repo, load.Config{}, nil)
		if err != nil {
			fmt.Println("CHECKER-ERROR", err)
			os.Exit(2)
		}
		rules.Dump(core.NewCtx(p, "dump", "quick"), *dump)
		return
	}

	pr := rules.Get(*prop)
	if pr == nil {
		fmt.Printf("CHECKER-ERROR unknown or unclaimed property %q (claimed: %s)\n", *prop, strings.Join(rules.IDs(), " "))
		os.Exit(2)
	}
	known, err := core.LoadKnown(filepath.Join(*verif, "known_findings.json"))
	if err != nil {
		fmt.Println("CHECKER-ERROR known_findings.json:", err)
		os.Exit(2)
	}
	cfgs := []load.Config{{}}
	if *tier == "thorough" {
		cfgs = []load.Config{{}, {GOOS: "linux", GOARCH: "386"}, {GOOS: "darwin", GOARCH: "arm64"}, {GOOS: "windows", GOARCH: "amd64"}}
	}
	res := &core.Result{Prop: *prop, Tier: *tier, Seed: seed, Start: start, Explain: pr.Explain, Trusted: pr.Trusted,
		Assume: []string{
			"go/types and go/ssa (x/tools v0.29.0) model the program faithfully; reflection is used by the module only for type names and comparability",
			"third-party implementations of the library's interfaces honour their documented contracts",
			"necessary conditions only: a pass means no structural cause of violation exists on any analysed path, not that the behaviour was executed",
		}}
	for _, r := range pr.Rules {
		res.Rules = append(res.Rules, core.RuleInfo{Name: r.Name, Doc: r.Doc})
	}
	for _, cfg := range cfgs {
		p, err := load.Load(*repo, cfg, nil)
		if err != nil {
			fmt.Printf("CHECKER-ERROR %v\n", err)
			fmt.Printf("VIOLATION property=%s replay=%s\n", *prop, "none (the tree does not load/type-check in config "+cfg.String()+")")
			os.Exit(1)
		}
		c := core.NewCtx(p, *prop, *tier)
		for _, r := range pr.Rules {
			rules.RunRule(c, r)
		}
		c.Census["module packages"] = len(p.Mod)
		c.Census["module functions (hand-written, with body)"] = len(p.HandFuncs())
		res.Merge(c, cfg.String())
	}
	code := res.Finish(*verif, known)
	pprof.StopCPUProfile()
	os.Exit(code)
}

func envOr(k, d string) string {
	if v := os.Getenv(k); v != "" {
		return v
	}
	return d
}
